"""Nestable wall-clock limits built on SIGALRM (main thread only).

A limit that fires raises `TimeLimit` inside the protected block; callers record the case as *inconclusive*
(a time budget is never a correctness signal). The handler re-arms itself every second because an exception
raised while the interpreter runs a gc callback / __del__ is swallowed ("Exception ignored in ...").
"""
from __future__ import annotations

import signal
import time
from contextlib import contextmanager

_stack = []  # absolute deadlines, innermost last


class TimeLimit(Exception):
    pass


def _handler(_sig, _frm):
    now = time.time()
    if _stack and now >= min(_stack) - 0.01:
        signal.setitimer(signal.ITIMER_REAL, 1.0)  # re-arm until the block is really left
        raise TimeLimit()
    _arm()


def _arm():
    if not _stack:
        signal.setitimer(signal.ITIMER_REAL, 0)
        return
    delay = max(min(_stack) - time.time(), 0.01)
    signal.setitimer(signal.ITIMER_REAL, delay)


@contextmanager
def time_limit(seconds: float):
    if not _stack:
        signal.signal(signal.SIGALRM, _handler)
    _stack.append(time.time() + seconds)
    _arm()
    try:
        yield
    finally:
        _stack.pop()
        _arm()
