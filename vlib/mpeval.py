"""Independent evaluator: sympy expressions / equation strings evaluated by *us* in mpmath at high precision.

The library evaluates its elements with numpy in double precision (`_impedance`) and uses sympy only for
`to_sympy`/limits; here the documented equation string is parsed with sympy and evaluated with mpmath at
`DPS` digits (unbounded exponent range), which shares no numeric code with the library.
"""
from __future__ import annotations

from functools import lru_cache
from typing import Dict, List, Sequence

import mpmath as mp
import sympy as sp

DPS = 40

# sympy's mpmath printer rewrites coth/tanh-like functions it does not know as exponentials
# ((e^x+e^-x)/(e^x-e^-x): catastrophic cancellation for tiny x); map them to mpmath's own implementations
_MODULES = [{"coth": mp.coth, "tanh": mp.tanh, "sinh": mp.sinh, "cosh": mp.cosh, "sech": mp.sech, "csch": mp.csch}, "mpmath"]


class RefNotFinite(Exception):
    pass


@lru_cache(maxsize=None)
def _equation_fn(equation: str):
    expr = sp.sympify(equation)
    syms = sorted(expr.free_symbols, key=str)
    return sp.lambdify(syms, expr, modules=_MODULES), [str(s) for s in syms]


def eval_equation(equation: str, values: Dict[str, float], freqs: Sequence[float], dps: int = DPS) -> List[complex]:
    """Evaluate the documented equation string with parameter values (exact binary -> mpf) at each frequency.
    `freqs` may contain mpf numbers (used for the 0 Hz / infinite-frequency limits)."""
    fn, names = _equation_fn(equation)
    out = []
    with mp.workdps(dps):
        for f in freqs:
            args = []
            for n in names:
                if n == "f":
                    args.append(mp.mpf(f))
                else:
                    args.append(mp.mpf(values[n]))
            try:
                z = mp.mpc(fn(*args))
            except (ZeroDivisionError, OverflowError, ValueError) as e:
                raise RefNotFinite(f"{type(e).__name__}: {e}")
            if not (mp.isfinite(z.real) and mp.isfinite(z.imag)):
                raise RefNotFinite("non-finite reference")
            out.append(z)
    return out


def eval_expr(expr, freqs: Sequence[float], dps: int = DPS, extra: Dict[str, float] = None) -> List["mp.mpc"]:
    """Evaluate a sympy expression whose only free symbol (after `extra` substitutions by name) is f."""
    extra = extra or {}
    free = sorted(expr.free_symbols, key=str)
    names = [str(s) for s in free]
    unknown = [n for n in names if n != "f" and n not in extra]
    if unknown:
        raise ValueError(f"unexpected free symbols {unknown}")
    try:
        fn = sp.lambdify(free, expr, modules=_MODULES)
    except Exception:  # noqa: BLE001  e.g. zoo/nan atoms (a shorted branch in a parallel connection): no code printer
        fn = None
    out = []
    with mp.workdps(dps):
        for f in freqs:
            if fn is None:
                out.append(_eval_by_subs(expr, free, names, f, extra, dps))
                continue
            args = [mp.mpf(f) if n == "f" else mp.mpf(extra[n]) for n in names]
            try:
                z = mp.mpc(fn(*args))
            except (ZeroDivisionError, OverflowError, ValueError) as e:
                raise RefNotFinite(f"{type(e).__name__}: {e}")
            if not (mp.isfinite(z.real) and mp.isfinite(z.imag)):
                raise RefNotFinite("non-finite reference")
            out.append(z)
    return out


def _eval_by_subs(expr, free, names, f, extra, dps):
    """Fallback: substitute high-precision Floats and let sympy evaluate (handles zoo: 1/(zoo + x) -> 0)."""
    subs = {}
    for s, n in zip(free, names):
        v = mp.mpf(f) if n == "f" else mp.mpf(extra[n])
        subs[s] = sp.Float(str(v), dps)
    try:
        val = sp.N(expr.subs(subs), dps)
    except Exception as e:  # noqa: BLE001
        raise RefNotFinite(f"{type(e).__name__}: {e}")
    if val.has(sp.zoo) or val.has(sp.nan) or val.has(sp.oo) or val.free_symbols:
        raise RefNotFinite("non-finite reference")
    re_, im_ = val.as_real_imag()
    try:
        return mp.mpc(mp.mpf(str(re_)), mp.mpf(str(im_)))
    except Exception as e:  # noqa: BLE001
        raise RefNotFinite(f"unparsable reference {val!r}")


def rel_err(z_lib: complex, z_ref) -> float:
    with mp.workdps(DPS):
        d = abs(mp.mpc(z_lib) - z_ref)
        s = abs(z_ref)
        if s == 0:
            return float(d)
        return float(d / s)
