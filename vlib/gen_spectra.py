"""G2/G3 — frequency grids and analytic spectra computed by *our own formulas* (never through pyimpspec circuits)."""
from __future__ import annotations

import math
from typing import List, Sequence, Tuple

import numpy as np
from hypothesis import strategies as st


@st.composite
def st_grid(draw, min_decades=2, max_decades=8, min_ppd=3, max_ppd=20, lo=-4.0, hi=7.0):
    """Log-spaced grid description: (log10 f_max, decades, points per decade)."""
    decades = draw(st.integers(min_decades, max_decades))
    if draw(st.integers(0, 3)) == 0 and decades < max_decades:
        decades = decades + 0.5  # narrow and half-decade ranges too (a strongly contracted tau range reverses its order)
    ppd = draw(st.integers(min_ppd, max_ppd))
    top = draw(st.floats(lo + decades, hi, allow_nan=False)) if lo + decades < hi else hi
    return {"log_fmax": round(top, 3), "decades": decades, "ppd": ppd}


def grid(g) -> np.ndarray:
    n = int(round(g["decades"] * g["ppd"])) + 1
    return np.logspace(g["log_fmax"], g["log_fmax"] - g["decades"], n)


def kk_taus(f: np.ndarray, num_RC: int, log_F_ext: float) -> np.ndarray:
    """Time constants of the linear Kramers-Kronig test: log-spaced between 1/(w_max F) and F/w_min
    (Schoenleber et al. 2014, eq. 12; Boukamp 1995, eq. 18)."""
    w = 2 * math.pi * np.asarray(f, dtype=float)
    F = 10.0**log_F_ext
    tmin, tmax = 1.0 / (w.max() * F), F / w.min()
    k = np.arange(num_RC, dtype=float)
    return tmin * (tmax / tmin) ** (k / (num_RC - 1))


def kk_model(f, taus, R0, coeffs, C=None, L=None, admittance=False) -> np.ndarray:
    """Impedance of the test's own equivalent circuit.
    Z mode (Boukamp Fig. 1):  Z = R0 + sum R_k/(1+jw tau_k) + 1/(jwC) + jwL            (coeffs = R_k)
    Y mode (Boukamp Fig. 13): Y = 1/R0 + sum jw C_k/(1+jw tau_k) + jwC + 1/(jwL), Z=1/Y (coeffs = C_k)"""
    w = 2 * math.pi * np.asarray(f, dtype=float)
    jw = 1j * w
    if not admittance:
        Z = np.full(w.shape, complex(R0))
        for t, r in zip(taus, coeffs):
            Z = Z + r / (1 + jw * t)
        if C is not None:
            Z = Z + 1 / (jw * C)
        if L is not None:
            Z = Z + jw * L
        return Z
    Y = np.full(w.shape, complex(1.0 / R0))
    for t, c in zip(taus, coeffs):
        Y = Y + jw * c / (1 + jw * t)
    if C is not None:
        Y = Y + jw * C
    if L is not None:
        Y = Y + 1 / (jw * L)
    return 1 / Y


def kk_design_cond(f, taus, add_C, add_L, admittance, X, mode="complex") -> float:
    """Condition number of (our replica of) the weighted design matrix of the linear test; `mode` selects the rows."""
    w = 2 * math.pi * np.asarray(f, dtype=float)
    jw = 1j * w
    cols = [np.ones(w.shape, dtype=complex)]
    for t in taus:
        cols.append((jw / (1 + jw * t)) if admittance else (1 / (1 + jw * t)))
    if add_C:
        cols.append(jw if admittance else 1 / jw)
    if add_L:
        cols.append(1 / jw if admittance else jw)
    A = np.array(cols).T / np.abs(X)[:, None]
    if mode == "real":
        M = A.real
    elif mode == "imaginary":
        M = A.imag[:, 1:]  # the constant column has no imaginary part
    else:
        M = np.vstack([A.real, A.imag])
    # column scaling does not change the solution; judge the conditioning after equilibration
    norms = np.linalg.norm(M, axis=0)
    norms[norms == 0] = 1.0
    s = np.linalg.svd(M / norms, compute_uv=False)
    return float(s[0] / s[-1]) if s[-1] > 0 else math.inf


def ladder(f, R0: float, elements: Sequence[Tuple[float, float, float]]) -> np.ndarray:
    """R0 + sum R_k / (1 + (jw tau_k)^n_k)  — (RC) for n=1, (RQ) otherwise."""
    w = 2 * math.pi * np.asarray(f, dtype=float)
    Z = np.full(w.shape, complex(R0))
    for R, tau, n in elements:
        Z = Z + R / (1 + (1j * w * tau) ** n)
    return Z


def add_noise(Z: np.ndarray, pct: float, seed: int) -> np.ndarray:
    """Gaussian noise with standard deviation pct % of |Z| on both parts; the drawn integer `seed` is the generated value."""
    rng = np.random.Generator(np.random.PCG64(int(seed)))
    s = np.abs(Z) * pct / 100.0
    return Z + rng.normal(0, 1, Z.shape) * s + 1j * rng.normal(0, 1, Z.shape) * s
