"""G4 — a schedule-owning replacement for multiprocessing.Pool (DESIGN.md section 3).

Tasks are executed in-process, in submission order, on pickled copies of their arguments (as a real pool would
see them); `imap_unordered` then *delivers* the results in an order chosen by the harness (a Hypothesis-drawn
list of sort keys), `imap`/`map` deliver in order. The delivery order is the only schedule-dependent input of the
pool-using code paths of pyimpspec (pure worker functions, results gathered in the parent).
"""
from __future__ import annotations

import pickle
from typing import Any, Callable, Iterable, List


class _Iter:
    def __init__(self, results: List[Any]):
        self._results = list(results)
        self._i = 0

    def __iter__(self):
        return self

    def __next__(self):
        if self._i >= len(self._results):
            raise StopIteration
        r = self._results[self._i]
        self._i += 1
        if isinstance(r, _Raised):
            raise r.exc
        return r

    def next(self, timeout=None):  # noqa: A003  (multiprocessing's IMapIterator API)
        return self.__next__()


class _Raised:
    def __init__(self, exc):
        self.exc = exc


class Schedule:
    """Holds the delivery keys drawn by the harness and records what was actually used."""

    def __init__(self, keys: List[List[int]]):
        self.keys = [list(k) for k in keys]
        self.calls = 0
        self.ordered_calls = 0  # map/imap: tasks run on pickled copies, results delivered in submission order
        self.used: List[List[int]] = []
        self.nontrivial = False

    def order(self, n: int) -> List[int]:
        ks = self.keys[self.calls % len(self.keys)] if self.keys else []
        self.calls += 1
        ks = (ks * (n // max(len(ks), 1) + 1))[:n] if ks else list(range(n))
        order = sorted(range(n), key=lambda i: (ks[i], i))
        self.used.append(order)
        if order != list(range(n)):
            self.nontrivial = True
        return order


def make_pool_class(schedule: Schedule):
    class FakePool:
        def __init__(self, processes=None, *args, **kwargs):
            self.processes = processes

        def __enter__(self):
            return self

        def __exit__(self, *exc):
            return False

        def close(self):
            pass

        def join(self):
            pass

        def terminate(self):
            pass

        @staticmethod
        def _run(func: Callable, iterable: Iterable) -> List[Any]:
            out = []
            for arg in iterable:
                arg = pickle.loads(pickle.dumps(arg))  # the worker sees a copy, never the parent's objects
                try:
                    out.append(pickle.loads(pickle.dumps(func(arg))))
                except Exception as e:  # noqa: BLE001  delivered to the consumer like a real pool does
                    out.append(_Raised(e))
            return out

        def map(self, func, iterable, chunksize=None):
            schedule.ordered_calls += 1
            res = self._run(func, iterable)
            for r in res:
                if isinstance(r, _Raised):
                    raise r.exc
            return res

        def imap(self, func, iterable, chunksize=1):
            schedule.ordered_calls += 1
            return _Iter(self._run(func, iterable))

        def imap_unordered(self, func, iterable, chunksize=1):
            res = self._run(func, iterable)
            order = schedule.order(len(res))
            return _Iter([res[i] for i in order])

    return FakePool
