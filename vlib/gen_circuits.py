"""G1 — circuit ASTs: strategies, constructors (objects / CircuitBuilder / CDC text), reference
evaluator, grammar-directed printer and the equivalence relation (DESIGN.md section 3).

AST (plain JSON):
    ["S", [child, ...]]                       series connection
    ["P", [child, ...]]                       parallel connection
    ["E", symbol, params, label, subs]        element; subs is None or {key: child | "open" | "short"}
params: {key: {"v": float?, "lo": float?, "hi": float?, "fx": bool?}} — a missing key / missing field means
"class default", which lets the printer omit it or spell it out.
"""
from __future__ import annotations

import math
from functools import lru_cache
from typing import Any, Callable, Dict, List, Optional, Tuple

import numpy as np
from hypothesis import strategies as st

INF = float("inf")


# --------------------------------------------------------------------------- registry access
def element_classes(private: bool = True) -> Dict[str, type]:
    from pyimpspec import get_elements

    return dict(get_elements(private=private))


def is_container(cls) -> bool:
    from pyimpspec.circuit.base import Container

    return issubclass(cls, Container)


def class_info(cls) -> Dict[str, Dict[str, Any]]:
    vals = cls.get_default_values()
    lo = cls.get_default_lower_limits()
    hi = cls.get_default_upper_limits()
    fx = cls.are_fixed_by_default()
    return {k: {"v": vals[k], "lo": lo[k], "hi": hi[k], "fx": fx[k]} for k in vals}


# --------------------------------------------------------------------------- parameter values
def _logu(lo_exp: float, hi_exp: float):
    return st.floats(min_value=lo_exp, max_value=hi_exp, allow_nan=False).map(lambda e: 10.0**e)


def value_strategy(info: Dict[str, Any], wide: bool = True, allow_open: bool = False, short_mantissa: Optional[int] = None):
    """Values inside the class default limit box [lo, hi] (inclusive)."""
    lo, hi, d = info["lo"], info["hi"], info["v"]
    opts = []
    if lo == 0.0 and hi == 1.0 or (lo >= 0 and hi <= 1.0):
        # exponent-like: (0, 1]
        opts = [st.floats(min_value=0.05, max_value=1.0, allow_nan=False), st.sampled_from([1.0, 0.5, d])]
    elif math.isinf(lo) and lo < 0:
        mag = _logu(-6, 6)
        opts = [mag, mag.map(lambda x: -x), st.just(d)]
    else:
        centre = math.log10(abs(d)) if d not in (0.0,) and math.isfinite(d) else 0.0
        a = max(centre - 6, math.log10(lo) if lo > 0 else -300)
        b = min(centre + 6, math.log10(hi) if math.isfinite(hi) else 300)
        opts = [_logu(a, b), _logu(a, b), _logu(a, b), st.just(d)]
        if wide:
            wa = math.log10(lo) if lo > 0 else -30.0
            wb = math.log10(hi) if math.isfinite(hi) else 30.0
            opts.append(_logu(wa, wb))
            opts.append(st.just(lo))
            if math.isfinite(hi):
                opts.append(st.just(hi))
        if allow_open and math.isinf(hi):
            opts.append(st.just(INF))
    s = st.one_of(*opts).map(lambda x: min(max(x, lo), hi))
    if short_mantissa is not None:
        s = s.map(lambda x: round_sig(x, short_mantissa))
        s = s.map(lambda x: min(max(x, lo), hi))
    return s


def round_sig(x: float, n: int) -> float:
    if x == 0 or not math.isfinite(x):
        return x
    return float(f"%.{n - 1}E" % x)


# --------------------------------------------------------------------------- labels
_ident_start = "abcdefghijklmnopqrstuvwxyzABCDEFGHIJKLMNOPQRSTUVWXYZ"
_ident_rest = _ident_start + "0123456789_"
SYMPY_NAMES = ["E", "I", "pi", "S", "N", "O", "Q", "lambda", "re", "im", "beta", "gamma", "zeta", "oo", "f", "x"]


def label_identifier():
    return st.one_of(
        st.builds(lambda a, b: a + b, st.sampled_from(_ident_start), st.text(alphabet=_ident_rest, max_size=6)),
        st.sampled_from(SYMPY_NAMES),
    )


def label_rich():
    """Starts with an ASCII letter; printable ASCII incl. separators and *balanced* braces."""
    body_chars = "abcXYZ019 _-.,:/=()[]%+*#@!?'\"<>|&;^~"
    plain = st.text(alphabet=body_chars, max_size=8)

    @st.composite
    def rich(draw):
        s = draw(st.sampled_from(_ident_start)) + draw(plain)
        k = draw(st.integers(0, 3))
        if k == 1:
            s += "{" + draw(plain) + "}" + draw(plain)
        elif k == 2:  # nested braces, e.g. R_{ct_{1}}
            s += "{" + draw(plain) + "{" + draw(plain) + "}" + draw(plain) + "}" + draw(plain)
        elif k == 3:  # side-by-side groups
            s += "{" + draw(plain) + "}" + draw(plain) + "{" + draw(plain) + "}"
        return s.strip()

    return rich()


def label_hostile():
    """Accepted by set_label but not starting with a letter / unbalanced braces / newline."""
    return st.sampled_from(["1a", "_x", "-a", "a}b", "a{b", "{a", "}", "a\nb", "9.5e", ".x", "(a"])


# --------------------------------------------------------------------------- AST strategies
@st.composite
def st_element(
    draw,
    symbols: List[str],
    state: str = "values",  # "defaults" | "values" | "full"
    labels: str = "none",  # none | ident | rich | hostile | mixed
    depth: int = 0,
    allow_open: bool = False,
    sub_symbols: Optional[List[str]] = None,
    short_mantissa: Optional[int] = None,
    distinct: Optional[set] = None,
    beyond: bool = False,
):
    classes = element_classes()
    sym = draw(st.sampled_from(symbols))
    cls = classes[sym]
    info = class_info(cls)
    params: Dict[str, Dict[str, Any]] = {}
    if state != "defaults":
        for k, inf_ in info.items():
            if draw(st.integers(0, 3 if state != "full" else 5)) == 0:
                continue  # leave at class default
            p: Dict[str, Any] = {}
            # open branches: Resistor(R=inf) as in the repository's tests, and every other element with an unbounded
            # resistance parameter (Zarc, Ga, Ha, K: R=inf is inside their limits and makes the element open)
            v = draw(value_strategy(inf_, allow_open=allow_open and k == "R" and not sym.startswith("X"), short_mantissa=short_mantissa))
            if distinct is not None:
                tries = 0
                while v in distinct and tries < 20:
                    v = draw(value_strategy(inf_, short_mantissa=short_mantissa))
                    tries += 1
                distinct.add(v)
            p["v"] = v
            if state == "full":
                mode = draw(st.integers(0, 5))
                if beyond and draw(st.integers(0, 5)) == 0:
                    # value (and hence its limits) outside the class default box
                    up = math.isfinite(inf_["hi"]) and inf_["hi"] > 0 and (inf_["lo"] <= 0 or draw(st.booleans()))
                    if up:
                        v = inf_["hi"] * draw(_logu(0.3, 3))
                    elif inf_["lo"] > 0:
                        v = inf_["lo"] / draw(_logu(0.3, 3))
                    if short_mantissa is not None:
                        v = round_sig(v, short_mantissa)
                    p["v"] = v
                    mode = 3
                if math.isfinite(v):
                    span = abs(v) if v != 0 else 1.0
                    f1 = draw(_logu(0.01, 3))
                    f2 = draw(_logu(0.01, 3))
                    lo_c = v - span * (f1 - 1) if v <= 0 else v / f1
                    hi_c = v + span * (f2 - 1) if v <= 0 else v * f2
                    if short_mantissa is not None:
                        lo_c, hi_c = round_sig(lo_c, short_mantissa), round_sig(hi_c, short_mantissa)
                    if mode in (1, 3, 4) and lo_c < v:
                        p["lo"] = draw(st.sampled_from([lo_c, lo_c, -INF]))
                    if mode in (2, 3, 5) and hi_c > v:
                        p["hi"] = draw(st.sampled_from([hi_c, hi_c, INF]))
                    # limits must stay ordered relative to the class defaults when only one is given
                    lo_eff = p.get("lo", inf_["lo"])
                    hi_eff = p.get("hi", inf_["hi"])
                    if not (lo_eff < hi_eff and lo_eff <= v <= hi_eff):
                        p.pop("lo", None)
                        p.pop("hi", None)
                    lo_eff = p.get("lo", inf_["lo"])
                    hi_eff = p.get("hi", inf_["hi"])
                    if not (lo_eff <= p["v"] <= hi_eff):  # precondition of every user: values inside their limits
                        p["v"] = min(max(p["v"], lo_eff), hi_eff)
                if draw(st.integers(0, 2)) == 0:
                    p["fx"] = draw(st.booleans())
            params[k] = p
    label = ""
    if labels != "none" and draw(st.integers(0, 2)) > 0:
        kind = labels
        if labels == "mixed":
            kind = draw(st.sampled_from(["ident", "ident", "rich"]))
        label = draw({"ident": label_identifier(), "rich": label_rich(), "hostile": label_hostile()}[kind])
    subs = None
    if is_container(cls):
        subs = {}
        inner = sub_symbols or ["R", "C", "Q", "W", "L"]
        for key in sorted(cls.get_default_subcircuits().keys()):
            choice = draw(st.integers(0, 5))
            if choice == 0:
                continue  # class default
            if choice == 1:
                subs[key] = "open"
            elif choice == 2:
                subs[key] = "short"
            else:
                inner_syms = inner + (["Tlm"] if depth < 1 and draw(st.integers(0, 4)) == 0 else [])
                sub = draw(
                    st_tree(inner_syms, max_leaves=3, state=state, labels=labels, depth=depth + 1, canonical=True,
                            short_mantissa=short_mantissa, distinct=distinct, beyond=beyond)
                )
                if sub[0] == "S" and len(sub[1]) == 1 and sub[1][0][0] == "P" and draw(st.booleans()):
                    sub = sub[1][0]  # a bare parallel connection is what the parser itself stores
                subs[key] = sub
    return ["E", sym, params, label, subs]


@st.composite
def st_tree(
    draw,
    symbols: List[str],
    max_leaves: int = 8,
    min_leaves: int = 1,
    state: str = "values",
    labels: str = "none",
    depth: int = 0,
    canonical: bool = False,
    allow_open: bool = False,
    short_mantissa: Optional[int] = None,
    distinct: Optional[set] = None,
    root: Optional[str] = None,
    beyond: bool = False,
):
    """Random nesting with a drawn number of leaves. canonical=True: strict S/P alternation, no unary series
    below the root (exactly what the parser itself produces)."""
    n = draw(st.integers(min_leaves, max_leaves))

    def leaf():
        return draw(st_element(symbols, state=state, labels=labels, depth=depth, allow_open=allow_open,
                               short_mantissa=short_mantissa, distinct=distinct, beyond=beyond))

    def build(n: int, kind: str, top: bool) -> Any:
        if n == 1 and not top:
            return leaf()
        if n == 1:
            return [kind if kind == "S" else "S", [leaf()]]
        k = draw(st.integers(2, min(n, 4)))
        # composition of n into k positive parts
        cuts = sorted(draw(st.lists(st.integers(1, n - 1), min_size=k - 1, max_size=k - 1, unique=True)))
        sizes = [b - a for a, b in zip([0] + cuts, cuts + [n])]
        children = []
        for s in sizes:
            if s == 1:
                c = leaf()
                if not canonical and draw(st.integers(0, 7)) == 0:
                    c = ["S", [c]]
                children.append(c)
            else:
                other = "P" if kind == "S" else "S"
                ck = other if canonical or draw(st.integers(0, 3)) > 0 else kind
                children.append(build(s, ck, False))
        return [kind, children]

    kind = root or draw(st.sampled_from(["S", "P"])) if n > 1 else "S"
    tree = build(n, kind, True)
    if tree[0] == "P":
        tree = ["S", [tree]]
    return tree


def enumerate_shapes(n: int, unary: bool = True):
    """Every series/parallel nesting with exactly n leaves (leaf = None). Ordered children; parallel nodes have
    >= 2 children; both alternating and same-kind nesting; at most one unary series wrapper per node."""

    @lru_cache(maxsize=None)
    def compositions(n: int, k: int) -> Tuple[Tuple[int, ...], ...]:
        if k == 1:
            return ((n,),)
        out = []
        for first in range(1, n - k + 2):
            for rest in compositions(n - first, k - 1):
                out.append((first,) + rest)
        return tuple(out)

    @lru_cache(maxsize=None)
    def trees(n: int) -> Tuple[Any, ...]:
        base: List[Any] = []
        if n == 1:
            base.append(None)
        for k in range(2, n + 1):
            for comp in compositions(n, k):
                # cartesian product of children choices
                def rec(i: int, acc: Tuple[Any, ...]):
                    if i == len(comp):
                        yield acc
                        return
                    for t in trees(comp[i]):
                        yield from rec(i + 1, acc + (t,))

                for children in rec(0, ()):
                    base.append(("S", children))
                    base.append(("P", children))
        out = list(base)
        if unary:
            out.extend(("S", (t,)) for t in base)
        return tuple(out)

    return trees(n)


def shape_to_ast(shape, leaves: List[Any]) -> Any:
    it = iter(leaves)

    def rec(s):
        if s is None:
            return next(it)
        return [s[0], [rec(c) for c in s[1]]]

    t = rec(shape)
    if t[0] != "S":
        t = ["S", [t]]
    return t


def count_leaves(shape) -> int:
    if shape is None:
        return 1
    return sum(count_leaves(c) for c in shape[1])


# --------------------------------------------------------------------------- AST helpers
def ast_elements(ast, nested: bool = True) -> List[Any]:
    out = []
    if ast[0] in ("S", "P"):
        for c in ast[1]:
            out.extend(ast_elements(c, nested))
    else:
        out.append(ast)
        if nested and ast[4]:
            for key in sorted(ast[4]):
                sub = ast[4][key]
                if isinstance(sub, list):
                    out.extend(ast_elements(sub, nested))
    return out


def ast_depth(ast) -> int:
    if ast[0] in ("S", "P"):
        return 1 + max([ast_depth(c) for c in ast[1]] or [0])
    return 0


def ast_has(ast, kind: str) -> bool:
    if ast[0] == kind:
        return True
    if ast[0] in ("S", "P"):
        return any(ast_has(c, kind) for c in ast[1])
    return False


def normalize(ast) -> Any:
    """Canonical form: flatten directly nested same-kind connections, unwrap unary connections."""
    if ast[0] == "E":
        subs = ast[4]
        if subs:
            subs = {k: (normalize_root(v) if isinstance(v, list) else v) for k, v in subs.items()}
        return ["E", ast[1], ast[2], ast[3], subs]
    kind = ast[0]
    children = []
    for c in ast[1]:
        c = normalize(c)
        if c[0] == kind:
            children.extend(c[1])
        else:
            children.append(c)
    if len(children) == 1:
        return children[0]
    return [kind, children]


def normalize_root(ast) -> Any:
    n = normalize(ast)
    if n[0] != "S":
        n = ["S", [n]]
    return n


def is_canonical(ast, top: bool = True) -> bool:
    """True when parse(serialize) can reproduce the structure exactly (what the parser produces)."""
    if ast[0] == "E":
        subs = ast[4] or {}
        for v in subs.values():
            if isinstance(v, list):
                # the parser stores "[(..)]" as the bare parallel connection
                if v[0] == "S" and len(v[1]) == 1 and v[1][0][0] != "E":
                    return False
                if not is_canonical(v, True):
                    return False
        return True
    kind, children = ast
    if len(children) == 0:
        return False
    if kind == "P" and len(children) < 2:
        return False
    if kind == "S" and len(children) == 1 and not top:
        return False
    for c in children:
        if c[0] == kind:
            return False
        if not is_canonical(c, False):
            return False
    return True


# --------------------------------------------------------------------------- constructors
def full_params(ast_el) -> Dict[str, Dict[str, Any]]:
    """Explicit (value, lower, upper, fixed) of every parameter of an element AST node."""
    cls = element_classes()[ast_el[1]]
    info = class_info(cls)
    out = {}
    for k, d in info.items():
        p = dict(d)
        p.update({kk: vv for kk, vv in (ast_el[2].get(k) or {}).items() if vv is not None})
        out[k] = p
    return out


def build_element(ast_el):
    cls = element_classes()[ast_el[1]]
    kwargs = {}
    subs = ast_el[4]
    if subs:
        from pyimpspec import Series

        for key, sub in subs.items():
            if sub == "open":
                kwargs[key] = None
            elif sub == "short":
                kwargs[key] = Series([])
            else:
                kwargs[key] = build_connection(sub)
    el = cls(**kwargs)
    for k, p in full_params(ast_el).items():
        # order the API accepts for any target limits
        if p["lo"] < el.get_upper_limit(k):
            el.set_lower_limits(k, p["lo"])
            el.set_upper_limits(k, p["hi"])
        else:
            el.set_upper_limits(k, p["hi"])
            el.set_lower_limits(k, p["lo"])
        el.set_values(k, p["v"])
        el.set_fixed(k, bool(p["fx"]))
    el.set_label(ast_el[3])
    return el


def build_connection(ast):
    from pyimpspec import Parallel, Series

    if ast[0] == "E":
        return Series([build_element(ast)])
    return _build_node(ast)


def _build_node(ast):
    from pyimpspec import Parallel, Series

    if ast[0] == "E":
        return build_element(ast)
    cls = Series if ast[0] == "S" else Parallel
    return cls([_build_node(c) for c in ast[1]])


def build_objects(ast):
    from pyimpspec import Circuit

    return Circuit(_build_node(ast))


def build_builder(ast, peek=None, use_iadd=None):
    """CircuitBuilder path (goes through a 12-decimal CDC internally).
    `peek(root_builder, current_builder)` is called after every step of the building history (used to interleave
    str()/to_string()/to_circuit() calls); `use_iadd(i)` chooses `+=` instead of `.add()` for the i-th element."""
    from pyimpspec import CircuitBuilder

    count = [0]

    def fill(root, ctx, node):
        for c in node[1]:
            if c[0] == "E":
                if use_iadd is not None and use_iadd(count[0]):
                    ctx += build_element(c)
                else:
                    ctx.add(build_element(c))
                count[0] += 1
            elif c[0] == "S":
                with ctx.series() as s:
                    if peek:
                        peek(root, s)
                    fill(root, s, c)
            else:
                with ctx.parallel() as p:
                    if peek:
                        peek(root, p)
                    fill(root, p, c)
            if peek:
                peek(root, ctx)

    root = ast if ast[0] == "S" else ["S", [ast]]
    with CircuitBuilder() as b:
        fill(b, b, root)
    return b.to_circuit() if peek is None else b


# --------------------------------------------------------------------------- printer
def fmt_num(x: float, style: str = "17E") -> str:
    if style == "17E":
        return "%.17E" % x
    if style == "12E":
        return "%.12E" % x
    if style == "repr":
        return repr(float(x))
    if style == "int":
        if float(x).is_integer() and abs(x) < 1e15:
            return str(int(x))
        return repr(float(x))
    if style == "lower-e":
        return ("%.17e" % x)
    raise ValueError(style)


class Printer:
    """Grammar-directed CDC printer. `choose(name, options)` returns one of the options; with the default chooser
    the output is the canonical extended serialisation at 17 digits."""

    def __init__(self, choose: Optional[Callable[[str, List[Any]], Any]] = None, num_styles=("17E",)):
        self.choose = choose or (lambda name, options: options[0])
        self.num_styles = list(num_styles)
        self.used: set = set()

    def ws(self) -> str:
        w = self.choose("ws", ["", "", "", " ", "\t", "\n", "  "])
        if w:
            self.used.add("whitespace")
        return w

    def num(self, x: float) -> str:
        style = self.choose("num", self.num_styles)
        if style != "17E":
            self.used.add("num:" + style)
        return fmt_num(x, style)

    def limit(self, x: float, v: float, upper: bool) -> str:
        if math.isinf(x):
            return "inf"
        if v != 0 and math.isfinite(v):
            # percentage form only when it reproduces the limit bit for bit
            for p in (50.0, 10.0, 150.0, 200.0, 1000.0, 12.5, 99.0, 101.0):
                if v * p / 100 == x and self.choose("pct", [False, True]):
                    self.used.add("percent")
                    return fmt_num(p, self.choose("pctnum", ["repr", "int"])) + self.ws() + "%"
        return self.num(x)

    def param(self, key: str, p: Dict[str, Any], d: Dict[str, Any]) -> str:
        v = p.get("v", d["v"])
        s = key + self.ws() + "=" + self.ws() + self.num(v)
        fx = p.get("fx", d["fx"])
        if fx:
            mark = self.choose("fixed", ["F", "f"])
            if mark == "f":
                self.used.add("lower-f")
            s += mark
        lo_given = "lo" in p and p["lo"] is not None
        hi_given = "hi" in p and p["hi"] is not None
        explicit = self.choose("explicit-limits", [True, False])
        lo = p["lo"] if lo_given else d["lo"]
        hi = p["hi"] if hi_given else d["hi"]
        if lo_given or hi_given or explicit:
            if not lo_given and not explicit:
                self.used.add("upper-only")
                s += self.ws() + "/" + self.ws() + "/" + self.ws() + self.limit(hi, v, True)
            elif not hi_given and not explicit:
                self.used.add("lower-only")
                s += self.ws() + "/" + self.ws() + self.limit(lo, v, False)
            else:
                s += self.ws() + "/" + self.ws() + self.limit(lo, v, False) + self.ws() + "/" + self.ws() + self.limit(hi, v, True)
        else:
            self.used.add("limits-omitted")
        return s

    def element(self, ast_el) -> str:
        sym = ast_el[1]
        cls = element_classes()[sym]
        info = class_info(cls)
        items: List[str] = []
        keys = list(info.keys())
        subs = ast_el[4] or {}
        for k in keys:
            p = ast_el[2].get(k) or {}
            nondefault = any(kk in p and p[kk] is not None for kk in ("v", "lo", "hi")) or ("fx" in p and p["fx"] != info[k]["fx"])
            # a fixed-by-default parameter must be spelled out to keep its flag (the parser sets fixed=False otherwise? no:
            # omitted parameters keep every class default) — omission is allowed exactly when nothing differs
            if nondefault or self.choose("explicit-param", [True, False]):
                items.append(self.param(k, p, info[k]))
            else:
                self.used.add("param-omitted")
        sub_items: List[str] = []
        if is_container(cls):
            defaults = cls.get_default_subcircuits()
            for key in sorted(defaults.keys()):
                if key in subs:
                    sub = subs[key]
                    if sub == "open":
                        word = self.choose("open-word", ["open", "inf"])
                        self.used.add("kw:" + word)
                        sub_items.append(key + self.ws() + "=" + self.ws() + word)
                    elif sub == "short":
                        word = self.choose("short-word", ["short", "zero"])
                        self.used.add("kw:" + word)
                        sub_items.append(key + self.ws() + "=" + self.ws() + word)
                    else:
                        sub_items.append(key + self.ws() + "=" + self.ws() + self.subcircuit(sub))
                else:
                    # class default sub-circuit: omit or spell out
                    d = defaults[key]
                    if self.choose("explicit-sub", [False, True]):
                        if d is None:
                            sub_items.append(key + "=open")
                        elif len(d.get_elements()) == 0:
                            sub_items.append(key + "=short")
                        else:
                            sub_items.append(key + "=" + d.to_string(17))
                    else:
                        self.used.add("sub-omitted")
        order = self.choose("order", ["subs-first", "params-first", "reversed"])
        if order == "subs-first":
            allitems = sub_items + items
        elif order == "params-first":
            allitems = items + sub_items
            if sub_items and items:
                self.used.add("param-order")
        else:
            allitems = list(reversed(sub_items + items))
            if len(allitems) > 1:
                self.used.add("param-order")
        label = ast_el[3]
        if not allitems and not label:
            if self.choose("empty-braces", [False, True]) and False:
                return sym + "{}"
            return sym
        s = sym + self.ws() + "{" + self.ws()
        sep = self.ws() + "," + self.ws()
        s += sep.join(allitems)
        if label:
            s += self.ws() + ":" + self.ws() + label
        s += self.ws() + "}"
        return s

    def subcircuit(self, sub) -> str:
        # sub is a connection AST (root "S" or "P")
        node = sub
        if node[0] == "S" and all(c[0] == "E" for c in node[1]):
            if self.choose("bare-list", [False, True]):
                self.used.add("bare-list")
                return self.ws().join(self.element(c) for c in node[1])
        if node[0] == "S" and len(node[1]) == 1 and node[1][0][0] == "P":
            if self.choose("bare-parallel", [False, True]):
                self.used.add("sub-bare-parallel")
                return self.node(node[1][0])
        return self.node(node)

    def node(self, ast) -> str:
        if ast[0] == "E":
            return self.element(ast)
        o, c = ("[", "]") if ast[0] == "S" else ("(", ")")
        return o + self.ws() + (self.ws()).join(self.node(ch) for ch in ast[1]) + self.ws() + c

    def circuit(self, ast) -> str:
        body = None
        if ast[0] == "S" and self.choose("outer", ["brackets", "implicit"]) == "implicit":
            self.used.add("implicit-series")
            body = self.ws().join(self.node(ch) for ch in ast[1])
        else:
            body = self.node(ast)
        head = self.choose("header", ["", "!V=1!", "! V = 1 !", "!v=1!"])
        if head:
            self.used.add("header")
        return self.ws() + head + self.ws() + body + self.ws()


def print_cdc(ast, choose=None, num_styles=("17E",)) -> Tuple[str, List[str]]:
    pr = Printer(choose, num_styles)
    text = pr.circuit(ast)
    return text, sorted(pr.used)


@st.composite
def st_spelling(draw, ast, num_styles=("17E", "repr", "int", "lower-e")):
    """A drawn alternative spelling of the same AST."""

    def choose(name, options):
        if name == "ws":
            # keep white space rare so that texts stay readable
            return draw(st.sampled_from(options)) if draw(st.integers(0, 5)) == 0 else ""
        return draw(st.sampled_from(options))

    return print_cdc(ast, choose, num_styles)


# --------------------------------------------------------------------------- circuit -> AST, equivalence
def circuit_to_ast(obj) -> Any:
    from pyimpspec import Circuit, Parallel, Series
    from pyimpspec.circuit.base import Connection, Container, Element

    if isinstance(obj, Circuit):
        conns = obj.get_connections(recursive=False)
        return circuit_to_ast(conns[0])
    if isinstance(obj, Connection):
        kind = "S" if isinstance(obj, Series) else "P"
        return [kind, [circuit_to_ast(c) for c in obj]]
    if isinstance(obj, Element):
        vals, lo, hi, fx = obj.get_values(), obj.get_lower_limits(), obj.get_upper_limits(), obj.are_fixed()
        params = {k: {"v": vals[k], "lo": lo[k], "hi": hi[k], "fx": bool(fx[k])} for k in vals}
        subs = None
        if isinstance(obj, Container):
            subs = {}
            for key, con in obj.get_subcircuits().items():
                if con is None:
                    subs[key] = "open"
                elif len(con.get_elements()) == 0:
                    subs[key] = "short"
                else:
                    subs[key] = circuit_to_ast(con)
        return ["E", obj.get_symbol(), params, obj.get_label(), subs]
    raise TypeError(f"not a circuit object: {obj!r}")


def explicit(ast) -> Any:
    """Fill in every class default so that two ASTs can be compared field by field."""
    if ast[0] in ("S", "P"):
        return [ast[0], [explicit(c) for c in ast[1]]]
    cls = element_classes()[ast[1]]
    params = full_params(ast)
    subs = None
    if is_container(cls):
        subs = {}
        defaults = cls.get_default_subcircuits()
        given = ast[4] or {}
        for key in defaults:
            if key in given:
                v = given[key]
                subs[key] = explicit(v) if isinstance(v, list) else v
            else:
                d = defaults[key]
                if d is None:
                    subs[key] = "open"
                elif len(d.get_elements()) == 0:
                    subs[key] = "short"
                else:
                    subs[key] = circuit_to_ast(d)
    return ["E", ast[1], params, ast[3].strip(), subs]


def _num_close(a: float, b: float, rel: float) -> bool:
    if a == b:
        return True
    if math.isinf(a) or math.isinf(b) or math.isnan(a) or math.isnan(b):
        return False
    return abs(a - b) <= rel * max(abs(a), abs(b))


def equiv(a, b, rel: float = 0.0, path: str = "") -> Optional[str]:
    """None when the two (explicit, normalised) ASTs denote the same circuit; else a description of the first
    difference."""
    if a[0] != b[0]:
        return f"{path}: node kind {a[0]} != {b[0]}"
    if a[0] in ("S", "P"):
        if len(a[1]) != len(b[1]):
            return f"{path}/{a[0]}: {len(a[1])} children != {len(b[1])}"
        for i, (x, y) in enumerate(zip(a[1], b[1])):
            d = equiv(x, y, rel, f"{path}/{a[0]}{i}")
            if d:
                return d
        return None
    if a[1] != b[1]:
        return f"{path}: element {a[1]} != {b[1]}"
    if a[3] != b[3]:
        return f"{path}/{a[1]}: label {a[3]!r} != {b[3]!r}"
    for k in a[2]:
        pa, pb = a[2][k], b[2].get(k)
        if pb is None:
            return f"{path}/{a[1]}: parameter {k} missing"
        if bool(pa["fx"]) != bool(pb["fx"]):
            return f"{path}/{a[1]}.{k}: fixed {pa['fx']} != {pb['fx']}"
        for fld in ("v", "lo", "hi"):
            if not _num_close(float(pa[fld]), float(pb[fld]), rel):
                return f"{path}/{a[1]}.{k}.{fld}: {pa[fld]!r} != {pb[fld]!r}"
    sa, sb = a[4] or {}, b[4] or {}
    if set(sa) != set(sb):
        return f"{path}/{a[1]}: sub-circuit keys {sorted(sa)} != {sorted(sb)}"
    for key in sa:
        x, y = sa[key], sb[key]
        if isinstance(x, str) or isinstance(y, str):
            if x != y:
                return f"{path}/{a[1]}.{key}: {x if isinstance(x, str) else 'circuit'} != {y if isinstance(y, str) else 'circuit'}"
            continue
        d = equiv(x, y, rel, f"{path}/{a[1]}.{key}")
        if d:
            return d
    return None


def round_ast(ast, decimals: int) -> Any:
    """The AST whose numbers are what a `decimals`-decimal serialisation can carry."""
    if ast[0] in ("S", "P"):
        return [ast[0], [round_ast(c, decimals) for c in ast[1]]]
    r = lambda x: x if x is None or not math.isfinite(x) else float(f"%.{decimals}E" % x)
    params = {k: {kk: (r(vv) if kk in ("v", "lo", "hi") else vv) for kk, vv in p.items()} for k, p in ast[2].items()}
    subs = ast[4]
    if subs:
        subs = {k: (round_ast(v, decimals) if isinstance(v, list) else v) for k, v in subs.items()}
    return ["E", ast[1], params, ast[3], subs]


def canonical_explicit(ast) -> Any:
    return normalize_root(explicit(ast))


# --------------------------------------------------------------------------- reference evaluator
OPEN = "open"


class RefAbort(Exception):
    """The reference cannot judge this case (a leaf refused for another reason than being open)."""


def ref_Z(obj, f: float, leaf_cache: Optional[dict] = None):
    """Composition laws on the object tree in numpy complex128 scalars; leaves through their own public
    get_impedances. Returns (Z | OPEN, kappa)."""
    from pyimpspec import Parallel, Series
    from pyimpspec.circuit.base import Connection, Element
    from pyimpspec.exceptions import ImpedanceError, InfiniteImpedance

    kappa = [1.0]

    def rec(o):
        if isinstance(o, Element):
            key = (id(o), f)
            if leaf_cache is not None and key in leaf_cache:
                return leaf_cache[key]
            try:
                with np.errstate(all="ignore"):
                    z = np.complex128(o.get_impedances(np.array([f], dtype=float))[0])
            except InfiniteImpedance:
                z = OPEN
            except (ImpedanceError, NotImplementedError, ArithmeticError) as e:
                # a leaf that cannot be evaluated is C02's business, not a composition question
                raise RefAbort(f"leaf {o.get_symbol()} refused: {type(e).__name__}")
            if leaf_cache is not None:
                leaf_cache[key] = z
            return z
        children = [rec(c) for c in o]
        with np.errstate(all="ignore"):
            if isinstance(o, Series):
                if any(c is OPEN for c in children):
                    return OPEN
                if not children:
                    return np.complex128(0)
                tot = np.complex128(0)
                for c in children:
                    tot = tot + c
                mag = sum(abs(c) for c in children)
                if mag > 0 and abs(tot) > 0:
                    kappa[0] = max(kappa[0], float(mag / abs(tot)))
                elif mag > 0:
                    kappa[0] = INF
                return tot
            live = [c for c in children if c is not OPEN]
            if not children:
                return np.complex128(0)
            if not live:
                return OPEN
            if any(c == 0 for c in live):
                return np.complex128(0)
            ys = [np.complex128(1) / c for c in live]
            tot = np.complex128(0)
            for y in ys:
                tot = tot + y
            mag = sum(abs(y) for y in ys)
            if mag > 0 and abs(tot) > 0:
                kappa[0] = max(kappa[0], float(mag / abs(tot)))
            elif mag > 0:
                kappa[0] = INF
            return np.complex128(1) / tot

    z = rec(obj)
    return z, kappa[0]


def all_elements(circuit_or_connection) -> list:
    """Every element incl. those nested in container sub-circuits (public API only)."""
    from pyimpspec.circuit.base import Container

    out = []
    queue = list(circuit_or_connection.get_elements(recursive=True))
    while queue:
        el = queue.pop(0)
        out.append(el)
        if isinstance(el, Container):
            for sub in el.get_subcircuits().values():
                if sub is not None:
                    queue.extend(sub.get_elements(recursive=True))
    return out


def top_connection(circuit):
    return circuit.get_connections(recursive=False)[0]
