"""Shared runner for all property checks (see DESIGN.md section 2).

    ./check C05 [--tier quick|thorough] [--replay FILE] [--shard i/S --out FILE]

Exit codes: 0 = property held on everything explored (KNOWN-FINDING lines allowed),
1 = violation (a line "VIOLATION property=<id> replay=<path>" was printed),
2 = harness error (never prints VIOLATION).
"""
from __future__ import annotations

import argparse
import hashlib
import importlib
import json
import math
import os
import random
import subprocess
import sys
import tempfile
import time
import traceback
from collections import Counter
from dataclasses import dataclass, field
from typing import Any, Callable, Dict, List, Optional

VERIF = os.path.dirname(os.path.dirname(os.path.abspath(__file__)))
REPO = os.environ.get("VERIF_REPO", "/repo")
REPO_SRC = os.path.join(REPO, "src")

CHECKS = {
    "C01": "checks.c01_composition",
    "C02": "checks.c02_equations",
    "C03": "checks.c03_cdc_roundtrip",
    "C04": "checks.c04_parse_total",
    "C05": "checks.c05_dataset",
    "C06": "checks.c06_files",
    "C07": "checks.c07_kk_exact",
    "C08": "checks.c08_results",
    "C09": "checks.c09_kk_scaling",
    "C10": "checks.c10_kk_auto",
    "C11": "checks.c11_zhit",
    "C12": "checks.c12_fitting",
    "C13": "checks.c13_drt",
    "C14": "checks.c14_element_api",
    "C15": "checks.c15_registry",
    "C16": "checks.c16_identifiers",
    "C17": "checks.c17_schedules",
    "C18": "checks.c18_options",
    "C19": "checks.c19_cli",
    "C20": "checks.c20_exports",
}


class HarnessError(Exception):
    pass


class _TargetHit(Exception):
    pass


def derive_seed(seed: int, *parts: Any) -> int:
    h = hashlib.sha256(("|".join([str(seed)] + [str(p) for p in parts])).encode())
    return int.from_bytes(h.digest()[:6], "big")


def canon(case: Any) -> str:
    return json.dumps(case, sort_keys=True, default=_json_default, allow_nan=True)


def _json_default(o: Any) -> Any:
    try:
        import numpy as np

        if isinstance(o, np.generic):
            return o.item()
        if isinstance(o, np.ndarray):
            return o.tolist()
    except Exception:
        pass
    if isinstance(o, complex):
        return {"re": o.real, "im": o.imag}
    if isinstance(o, (set, frozenset, tuple)):
        return list(o)
    if isinstance(o, bytes):
        return o.decode("latin-1")
    return repr(o)


def digest(case: Any) -> str:
    return hashlib.sha1(canon(case).encode()).hexdigest()[:16]


def lib_frame(tb) -> Optional[str]:
    """Innermost frame of a traceback that lies inside the code under test."""
    found = None
    for fs in traceback.extract_tb(tb):
        fn = os.path.abspath(fs.filename)
        if fn.startswith(REPO_SRC + os.sep):
            found = f"{os.path.relpath(fn, REPO_SRC)}:{fs.name}"
    return found


def innermost_is_raise_in_lib(exc: BaseException) -> bool:
    """True when the exception was raised by an explicit `raise` statement in pyimpspec."""
    tb = exc.__traceback__
    last = None
    for fs in traceback.extract_tb(tb):
        last = fs
    if last is None:
        return False
    fn = os.path.abspath(last.filename)
    if not fn.startswith(REPO_SRC + os.sep):
        return False
    line = (last.line or "").strip()
    return line.startswith("raise ") or line == "raise"


@dataclass
class Part:
    name: str
    body: Callable[["Ctx", Any], None]
    strategy: Any = None  # hypothesis strategy (kind == given) producing JSON-able cases
    items: Optional[Callable[["Ctx"], Any]] = None  # iterable of cases (kind == enum)
    n: Dict[str, int] = field(default_factory=lambda: {"quick": 100, "thorough": 1000})
    budget_s: Dict[str, float] = field(default_factory=lambda: {"quick": 120.0, "thorough": 1500.0})
    exhaustive: bool = False  # enum parts: True when the items are a complete finite space
    shard: bool = True  # False: run only in shard 0
    self_sharded: bool = False  # enum parts: items(ctx) already yields only this shard's slice
    case_timeout_s: float = 120.0  # wall-clock limit of one property body; expiry = inconclusive, never a violation

    @property
    def kind(self) -> str:
        return "given" if self.strategy is not None else "enum"


class Ctx:
    def __init__(self, prop: str, tier: str, seed: int, shard: int = 0, nshards: int = 1):
        self.prop = prop
        self.tier = tier
        self.seed = seed
        self.shard = shard
        self.nshards = nshards
        self.part = ""
        self.evaluations = 0
        self.nontrivial: set = set()
        self.nontrivial_keys: set = set()  # fast path for huge enumerations (keys are shard-disjoint by construction)
        self.classes: Counter = Counter()
        self.trivial: Counter = Counter()
        self.samples: Dict[str, Any] = {}
        self.failures: Dict[str, Dict[str, Any]] = {}
        self.excluded_known: Counter = Counter()
        self.inconclusive: Counter = Counter()
        self.observed: Dict[str, List[float]] = {}
        self.exhaustive: Dict[str, bool] = {}
        self.part_counts: Counter = Counter()
        self.predicates: Dict[str, Callable[[Any], bool]] = {}
        self.known: List[Dict[str, Any]] = []
        self.target: Optional[str] = None  # probe mode: bucket to hit
        self.deadline: float = float("inf")
        self.notes: List[str] = []

    # ---- bookkeeping used by property bodies ---------------------------------
    def q(self, quick, thorough):
        return quick if self.tier == "quick" else thorough

    def record(self, case: Any, nontrivial: bool, labels=(), why_trivial: str = "", key: Any = None) -> None:
        self.evaluations += 1
        self.part_counts[self.part] += 1
        if nontrivial and key is not None:
            self.nontrivial_keys.add(key)
        elif nontrivial:
            self.nontrivial.add(digest(case))
        else:
            self.trivial[why_trivial or "trivial"] += 1
        for lab in labels:
            self.classes[lab] += 1
        keys = list(labels) + ["_last"]
        if "_first" not in self.samples:
            keys.append("_first")
        for k in keys:
            if k in ("_first", "_last") or (k not in self.samples and len(self.samples) < 14):
                self.samples[k] = {"part": self.part, "case": case}

    def label(self, *labels: str) -> None:
        for lab in labels:
            self.classes[lab] += 1

    def observe(self, name: str, value: float) -> None:
        try:
            v = float(value)
        except Exception:
            return
        if math.isnan(v):
            return
        lo_hi = self.observed.setdefault(name, [v, v, 0])
        lo_hi[0] = min(lo_hi[0], v)
        lo_hi[1] = max(lo_hi[1], v)
        lo_hi[2] += 1

    def bucket(self, clause: str, kind: str = "", where: str = "") -> str:
        return "/".join(x for x in (self.part, clause, kind, where) if x)

    def fail(self, clause: str, case: Any, detail: str, kind: str = "", where: str = "") -> None:
        b = self.bucket(clause, kind, where)
        for k in self.known:
            if k.get("part", self.part) == self.part and k["clause"] == clause:
                pred = self.predicates.get(k["predicate"])
                if pred is not None and pred(case):
                    self.excluded_known[k["id"]] += 1
                    return
        if self.target is not None:
            if b == self.target:
                self.last_target_case = case
                raise _TargetHit()
            return
        dump = os.environ.get("VERIF_DUMP_FAILURES")  # triage aid: every failing (bucket, case), not only the smallest
        if dump:
            with open(dump, "a") as fh:
                fh.write(canon({"bucket": b, "case": case, "detail": str(detail)[:300]}) + "\n")
        size = len(canon(case))
        cur = self.failures.get(b)
        if cur is None or size < cur["size"]:
            self.failures[b] = {
                "part": self.part,
                "clause": clause,
                "bucket": b,
                "case": case,
                "detail": str(detail)[:2000],
                "size": size,
                "count": (cur["count"] if cur else 0) + 1,
            }
        else:
            cur["count"] += 1

    def check(self, cond: bool, clause: str, case: Any, detail: str = "") -> bool:
        if not cond:
            self.fail(clause, case, detail)
        return bool(cond)

    def crash(self, clause: str, case: Any, exc: BaseException) -> None:
        from vlib.timeouts import TimeLimit

        if isinstance(exc, TimeLimit):
            raise exc  # a wall-clock limit is inconclusive, never a violation: let the runner count it
        where = lib_frame(exc.__traceback__) or "?"
        self.fail(clause, case, f"{type(exc).__name__}: {exc}", kind=type(exc).__name__, where=where)

    def out_of_time(self) -> bool:
        return time.time() > self.deadline


# ------------------------------------------------------------------------------------
def _hyp_settings(max_examples: int, shrink: bool):
    from hypothesis import HealthCheck, Phase, settings

    return settings(
        max_examples=max_examples,
        database=None,
        deadline=None,
        derandomize=False,
        report_multiple_bugs=False,
        print_blob=False,
        suppress_health_check=list(HealthCheck),
        phases=[Phase.generate, Phase.shrink] if shrink else [Phase.generate],
    )


def _guarded(ctx: Ctx, part: Part, case: Any) -> None:
    """Run a property body; classify uncaught exceptions."""
    from vlib.timeouts import TimeLimit, time_limit

    try:
        with time_limit(part.case_timeout_s):
            part.body(ctx, case)
    except TimeLimit:
        ctx.inconclusive[part.name + ":case-timeout"] += 1
        return
    except _TargetHit:
        raise
    except HarnessError:
        raise
    except BaseException as e:  # noqa: BLE001
        from hypothesis.errors import HypothesisException, UnsatisfiedAssumption

        if isinstance(e, (UnsatisfiedAssumption, HypothesisException, KeyboardInterrupt, SystemExit)):
            raise
        if type(e).__name__ in ("StopTest", "Frozen"):
            raise
        if lib_frame(e.__traceback__) is not None:
            # an exception escaped from the code under test that the oracle did not
            # anticipate as a documented refusal
            ctx.crash("unexpected-exception", case, e)
        else:
            raise HarnessError(
                f"harness bug in {ctx.prop}/{part.name}: {type(e).__name__}: {e}\n"
                + "".join(traceback.format_exception(type(e), e, e.__traceback__))
            )


def run_part(ctx: Ctx, part: Part) -> None:
    ctx.part = part.name
    t0 = time.time()
    ctx.deadline = t0 + part.budget_s[ctx.tier] if ctx.target is None else float("inf")
    if part.kind == "enum":
        n = 0
        complete = True
        for i, case in enumerate(part.items(ctx)):
            if part.shard and not part.self_sharded and i % ctx.nshards != ctx.shard:
                continue
            if ctx.out_of_time():
                complete = False
                ctx.inconclusive[part.name + ":budget"] += 1
                break
            _guarded(ctx, part, case)
            n += 1
        ctx.exhaustive[part.name] = bool(part.exhaustive and complete)
        return
    from hypothesis import given, seed as hseed

    total = part.n[ctx.tier]
    per = total // ctx.nshards + (1 if ctx.shard < total % ctx.nshards else 0) if part.shard else total
    if per <= 0:
        return
    s = derive_seed(ctx.seed, ctx.prop, part.name, ctx.shard)

    @hseed(s)
    @_hyp_settings(per, shrink=False)
    @given(part.strategy)
    def t(case):
        if ctx.out_of_time():
            ctx.inconclusive[part.name + ":budget"] += 1
            return
        _guarded(ctx, part, case)

    t()


def _hits(ctx: Ctx, part: Part, bucket: str, case: Any) -> bool:
    """Does this explicit case fail in the given bucket? (used by module-level minimisers)"""
    probe = Ctx(ctx.prop, ctx.tier, ctx.seed, ctx.shard, ctx.nshards)
    probe.predicates, probe.known = ctx.predicates, ctx.known
    probe.target = bucket
    probe.part = part.name
    try:
        _guarded(probe, part, case)
    except _TargetHit:
        return True
    except HarnessError:
        return False
    return False


def shrink_bucket(ctx: Ctx, part: Part, failure: Dict[str, Any], budget_s: float) -> Dict[str, Any]:
    """Collect-then-shrink: rediscover the bucket with Hypothesis' shrinker on, keep the smallest case."""
    if part.kind != "given":
        return failure
    from hypothesis import find
    from hypothesis.errors import NoSuchExample

    best = {"case": failure["case"], "size": failure["size"]}
    t_end = time.time() + budget_s
    probe = Ctx(ctx.prop, ctx.tier, ctx.seed, ctx.shard, ctx.nshards)
    probe.predicates, probe.known = ctx.predicates, ctx.known
    probe.target = failure["bucket"]
    probe.part = part.name

    def hits(case) -> bool:
        if time.time() > t_end:
            return False
        try:
            _guarded(probe, part, case)
        except _TargetHit:
            sub = getattr(probe, "last_target_case", case)  # the (sub-)case the oracle actually judged
            size = len(canon(sub))
            if size < best["size"]:
                best["case"], best["size"] = sub, size
            return True
        except HarnessError:
            return False
        return False

    s = derive_seed(ctx.seed, ctx.prop, part.name, ctx.shard)
    try:
        find(part.strategy, hits, settings=_hyp_settings(max(part.n[ctx.tier], 200), shrink=True), random=random.Random(s))
    except NoSuchExample:
        pass
    except Exception:  # flaky / time-out artefacts of the budget: keep what we have
        pass
    out = dict(failure)
    out["case"], out["size"] = best["case"], best["size"]
    return out


# ------------------------------------------------------------------------------------
def load_known(prop: str):
    path = os.path.join(VERIF, "known_findings.json")
    if not os.path.exists(path):
        return [], []
    data = json.load(open(path))
    known = [k for k in data.get("known", []) if k["property"] == prop]
    fixed = [k for k in data.get("fixed", []) if k["property"] == prop]
    return known, fixed


def new_ctx(mod, prop, tier, seed, shard=0, nshards=1) -> Ctx:
    ctx = Ctx(prop, tier, seed, shard, nshards)
    ctx.predicates = getattr(mod, "PREDICATES", {})
    ctx.known, _ = load_known(prop)
    return ctx


def replay_case(mod, ctx: Ctx, rec: Dict[str, Any]) -> Dict[str, Dict[str, Any]]:
    """Run one stored case without Hypothesis; returns the failures it produced."""
    parts = {p.name: p for p in mod.parts(ctx)}
    part = parts.get(rec["part"])
    if part is None:
        raise HarnessError(f"replay file names unknown part {rec['part']!r}")
    sub = Ctx(ctx.prop, ctx.tier, ctx.seed)
    sub.predicates = ctx.predicates
    sub.known = []  # replay judges the case itself
    sub.part = part.name
    _guarded(sub, part, rec["case"])
    return sub.failures


def run_shard(prop: str, tier: str, seed: int, shard: int, nshards: int, out: str) -> int:
    import faulthandler
    import signal

    faulthandler.register(signal.SIGUSR1, all_threads=True)  # kill -USR1 <pid> prints the stack of a stuck shard
    mod = importlib.import_module(CHECKS[prop])
    ctx = new_ctx(mod, prop, tier, seed, shard, nshards)
    t0 = time.time()
    if hasattr(mod, "setup"):
        mod.setup(ctx)
    parts = mod.parts(ctx)
    only = os.environ.get("VERIF_PARTS")
    for part in parts:
        if only and part.name not in only.split(","):
            continue
        if not part.shard and shard != 0:
            continue
        run_part(ctx, part)
    # shrink what this shard found
    shrunk = {}
    budget = 45.0 if tier == "quick" else 240.0
    pmap = {p.name: p for p in parts}
    for b, f in list(ctx.failures.items())[:6]:
        shrunk[b] = shrink_bucket(ctx, pmap[f["part"]], f, budget)
        if hasattr(mod, "minimize"):
            try:
                shrunk[b] = mod.minimize(ctx, pmap[f["part"]], shrunk[b], lambda case, _b=b, _p=pmap[f["part"]]: _hits(ctx, _p, _b, case))
            except Exception:  # minimisation is best effort
                pass
    for b, f in ctx.failures.items():
        shrunk.setdefault(b, f)
    if hasattr(mod, "teardown"):
        mod.teardown(ctx)
    res = {
        "evaluations": ctx.evaluations,
        "nontrivial": sorted(ctx.nontrivial),
        "nontrivial_keys": len(ctx.nontrivial_keys),
        "classes": dict(ctx.classes),
        "trivial": dict(ctx.trivial),
        "samples": ctx.samples,
        "failures": shrunk,
        "excluded_known": dict(ctx.excluded_known),
        "inconclusive": dict(ctx.inconclusive),
        "observed": ctx.observed,
        "exhaustive": ctx.exhaustive,
        "part_counts": dict(ctx.part_counts),
        "notes": ctx.notes,
        "wall_s": time.time() - t0,
    }
    with open(out, "w") as fh:
        fh.write(canon(res))
    return 0


def _trim(case: Any, limit: int = 1500) -> Any:
    s = canon(case)
    if len(s) <= limit:
        return json.loads(s)
    return {"truncated_json": s[:limit] + "...", "full_length": len(s)}


def main(argv=None) -> int:
    ap = argparse.ArgumentParser()
    ap.add_argument("prop")
    ap.add_argument("--tier", default=os.environ.get("VERIF_TIER", "quick"), choices=["quick", "thorough"])
    ap.add_argument("--replay")
    ap.add_argument("--shard")
    ap.add_argument("--out")
    ap.add_argument("--shards", type=int)
    args = ap.parse_args(argv)
    prop = args.prop.upper()
    try:
        seed = int(os.environ.get("VERIF_SEED", "1") or "1")
    except ValueError:
        seed = derive_seed(0, os.environ.get("VERIF_SEED"))
    try:
        if prop not in CHECKS:
            raise HarnessError(f"unknown property {prop}")
        import pyimpspec

        if not os.path.abspath(pyimpspec.__file__).startswith(REPO_SRC + os.sep):
            raise HarnessError(f"pyimpspec imported from {pyimpspec.__file__}, expected {REPO_SRC}")
        if args.shard:
            i, s = args.shard.split("/")
            return run_shard(prop, args.tier, seed, int(i), int(s), args.out)
        return run_parent(prop, args.tier, seed, args.replay, args.shards)
    except HarnessError as e:
        print(f"HARNESS-ERROR property={prop}: {e}", file=sys.stderr)
        return 2
    except Exception:
        traceback.print_exc()
        print(f"HARNESS-ERROR property={prop}: uncaught exception", file=sys.stderr)
        return 2


def run_parent(prop: str, tier: str, seed: int, replay: Optional[str], shards_override: Optional[int]) -> int:
    t0 = time.time()
    mod = importlib.import_module(CHECKS[prop])
    ctx = new_ctx(mod, prop, tier, seed)
    known, fixed = load_known(prop)

    if replay:
        rec = json.load(open(replay))
        fails = replay_case(mod, ctx, rec)
        if fails:
            for b, f in fails.items():
                print(f"replay fails: {b}: {f['detail']}")
            print(f"VIOLATION property={prop} replay={replay}")
            return 1
        print(f"replay passes: property={prop} {replay}")
        return 0

    violations: List[str] = []
    # 1. known findings: canonical replay → KNOWN-FINDING line
    known_lines = []
    for k in known:
        rec = json.load(open(os.path.join(VERIF, k["replay"])))
        fails = replay_case(mod, ctx, rec)
        hit = [f for f in fails.values() if f["clause"] == k["clause"]]
        # several known findings may share one canonical case (one defect seen by two clauses)
        listed = {k2["clause"] for k2 in known if k2["replay"] == k["replay"]}
        other = [f for f in fails.values() if f["clause"] not in listed]
        if hit:
            known_lines.append(f"KNOWN-FINDING: property={prop} {k['id']}: {k['what']}")
        else:
            print(f"note: known finding {k['id']} no longer reproduces on this tree (entry could be retired)")
        for f in other:
            # canonical case failing in a different bucket is a new violation
            path = _write_replay(prop, f, seed, tier)
            violations.append(path)
    # 2. committed regression corpus (fixed findings, earlier shrunk cases, seeded regressions)
    rdir = os.path.join(VERIF, "replays", prop)
    known_paths = {os.path.normpath(os.path.join(VERIF, k["replay"])) for k in known}
    n_replayed = 0
    if os.path.isdir(rdir):
        for fn in sorted(os.listdir(rdir)):
            p = os.path.normpath(os.path.join(rdir, fn))
            if not fn.endswith(".json") or fn.startswith("new-") or p in known_paths:
                continue
            rec = json.load(open(p))
            n_replayed += 1
            fails = replay_case(mod, ctx, rec)
            if fails:
                for b, f in fails.items():
                    print(f"regression case fails: {fn}: {b}: {f['detail'][:300]}")
                violations.append(os.path.relpath(p, VERIF))

    # 3. generated search, sharded
    nshards = shards_override or getattr(mod, "SHARDS", {"quick": 8, "thorough": 16})[tier]
    tmp = tempfile.mkdtemp(prefix=f"verif-{prop}-")
    procs = []
    env = dict(os.environ)
    for i in range(nshards):
        out = os.path.join(tmp, f"shard{i}.json")
        cmd = [sys.executable, "-m", "vlib.runner", prop, "--tier", tier, "--shard", f"{i}/{nshards}", "--out", out]
        procs.append((i, out, subprocess.Popen(cmd, cwd=VERIF, env=env, stdout=subprocess.PIPE, stderr=subprocess.STDOUT, text=True)))
    merged = {
        "evaluations": 0,
        "nontrivial": set(),
        "nontrivial_keys": 0,
        "classes": Counter(),
        "trivial": Counter(),
        "samples": {},
        "failures": {},
        "excluded_known": Counter(),
        "inconclusive": Counter(),
        "observed": {},
        "exhaustive": {},
        "part_counts": Counter(),
        "notes": [],
    }
    harness_fail = False
    # backstop: a shard that outlives every budget it has (parts + shrinking) is stuck; dump its stack and stop it
    shrink_budget = 45.0 if tier == "quick" else 240.0
    hard_limit = sum(p.budget_s[tier] for p in mod.parts(ctx)) + 6 * shrink_budget + 600.0
    t_hard = time.time() + hard_limit
    for i, out, p in procs:
        try:
            stdout, _ = p.communicate(timeout=max(t_hard - time.time(), 1.0))
        except subprocess.TimeoutExpired:
            import signal as _signal

            p.send_signal(_signal.SIGUSR1)
            time.sleep(2)
            p.kill()
            stdout, _ = p.communicate()
            sys.stderr.write(f"--- shard {i} exceeded the hard limit of {hard_limit:.0f}s and was stopped\n")
        if p.returncode != 0 or not os.path.exists(out):
            harness_fail = True
            sys.stderr.write(f"--- shard {i} exit {p.returncode}\n{stdout[-6000:]}\n")
            continue
        r = json.load(open(out))
        merged["evaluations"] += r["evaluations"]
        merged["nontrivial"].update(r["nontrivial"])
        merged["nontrivial_keys"] += r.get("nontrivial_keys", 0)
        for key in ("classes", "trivial", "excluded_known", "inconclusive", "part_counts"):
            merged[key].update(r[key])
        for k, v in r["samples"].items():
            if k not in merged["samples"] or k == "_last":
                merged["samples"][k] = v
        for b, f in r["failures"].items():
            cur = merged["failures"].get(b)
            if cur is None or f["size"] < cur["size"]:
                if cur:
                    f["count"] += cur["count"]
                merged["failures"][b] = f
            else:
                cur["count"] += f["count"]
        for k, v in r["observed"].items():
            cur = merged["observed"].get(k)
            merged["observed"][k] = v if cur is None else [min(cur[0], v[0]), max(cur[1], v[1]), cur[2] + v[2]]
        for k, v in r["exhaustive"].items():
            merged["exhaustive"][k] = merged["exhaustive"].get(k, True) and v
        merged["notes"].extend(r["notes"])
    try:
        import shutil

        shutil.rmtree(tmp)
    except Exception:
        pass
    if harness_fail:
        raise HarnessError("one or more shards failed")

    # statistical clauses that only make sense over the whole run (frozen rates): judged by the parent on merged counters
    if hasattr(mod, "post"):
        for f in mod.post(merged, tier) or []:
            f.setdefault("size", len(canon(f["case"])))
            f.setdefault("count", 1)
            f.setdefault("bucket", f["part"] + "/" + f["clause"])
            merged["failures"][f["bucket"]] = f
    for b, f in sorted(merged["failures"].items()):
        path = _write_replay(prop, f, seed, tier)
        print(f"violated clause: {b} ({f['count']} cases): {f['detail'][:400]}")
        violations.append(path)

    # 4. evidence
    wall = time.time() - t0
    n_nt = len(merged["nontrivial"]) + merged["nontrivial_keys"]
    samples = [dict(label=k, **{kk: _trim(vv) if kk == "case" else vv for kk, vv in v.items()}) for k, v in list(merged["samples"].items())[:10]]
    exhaustive_parts = [k for k, v in merged["exhaustive"].items() if v]
    evidence = {
        "property_id": prop,
        "tier": tier,
        "seed": seed,
        "level": "exploration",
        "coverage": {
            "evaluations": merged["evaluations"],
            "distinct_nontrivial": n_nt,
            "rule": getattr(mod, "RULE", ""),
            "samples": samples,
            "classes": dict(sorted(merged["classes"].items())),
            "trivial_reasons": dict(merged["trivial"]),
            "excluded_known": dict(merged["excluded_known"]),
            "inconclusive": dict(merged["inconclusive"]),
            "observed_extremes": {k: {"min": v[0], "max": v[1], "n": v[2]} for k, v in sorted(merged["observed"].items())},
            "per_part_evaluations": dict(merged["part_counts"]),
            "exhaustive_parts": exhaustive_parts,
            "exhaustive": False,
            "regression_cases_replayed": n_replayed,
            "known_findings_reported": [k["id"] for k in known],
            "buckets": sorted(merged["failures"].keys()),
            "shards": nshards,
            "notes": merged["notes"][:20],
        },
        "assumptions": getattr(mod, "ASSUMPTIONS", []),
        "wall_s": round(wall, 2),
        "violations": len(violations),
    }
    os.makedirs(os.path.join(VERIF, "evidence"), exist_ok=True)
    with open(os.path.join(VERIF, "evidence", f"{prop}.json"), "w") as fh:
        json.dump(json.loads(canon(evidence)), fh, indent=1, sort_keys=True)
        fh.write("\n")

    for line in known_lines:
        print(line)
    print(
        f"{prop} tier={tier} seed={seed}: {merged['evaluations']} cases, {n_nt} distinct non-trivial, "
        f"{sum(merged['excluded_known'].values())} excluded as known, {len(violations)} violations, {wall:.1f}s"
    )
    if violations:
        for v in violations:
            print(f"VIOLATION property={prop} replay={v}")
        return 1
    # vacuity floors → harness error, not a pass
    floor = getattr(mod, "FLOOR", 0.2)
    if merged["evaluations"] == 0 or n_nt < 2:
        raise HarnessError("vacuous run: fewer than 2 distinct non-trivial cases")
    nt_evals = merged["evaluations"] - sum(merged["trivial"].values())
    if nt_evals / merged["evaluations"] < floor:
        raise HarnessError(f"vacuous run: non-trivial fraction {nt_evals / merged['evaluations']:.2f} below floor {floor}")
    required = getattr(mod, "REQUIRED_CLASSES", {}).get(tier, [])
    missing = [c for c in required if merged["classes"].get(c, 0) == 0]
    if missing:
        raise HarnessError(f"vacuous run: classes never generated: {missing}")
    return 0


def _write_replay(prop: str, f: Dict[str, Any], seed: int, tier: str) -> str:
    d = os.path.join(VERIF, "replays", prop)
    os.makedirs(d, exist_ok=True)
    h = hashlib.sha1(f["bucket"].encode()).hexdigest()[:10]
    rel = os.path.join("replays", prop, f"new-{h}.json")
    rec = {
        "property": prop,
        "part": f["part"],
        "clause": f["clause"],
        "bucket": f["bucket"],
        "case": json.loads(canon(f["case"])),
        "detail": f["detail"],
        "seed": seed,
        "tier": tier,
    }
    with open(os.path.join(VERIF, rel), "w") as fh:
        json.dump(rec, fh, indent=1, sort_keys=True)
        fh.write("\n")
    return rel


if __name__ == "__main__":
    sys.exit(main())
