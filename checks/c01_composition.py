"""C01 — circuit impedance obeys the series/parallel composition laws, however the circuit was built
and however it is evaluated (DESIGN.md section 4, C01)."""
from __future__ import annotations

import math

import numpy as np
from hypothesis import strategies as st

from vlib import gen_circuits as G
from vlib.runner import Part, derive_seed

PROPERTY = "C01"
RULE = (
    "Circuits: every series/parallel shape without unary wrappers up to 5 (quick) / 6 (thorough) leaves and with unary "
    "series wrappers up to 3 / 4 leaves, exhaustively, leaves assigned from a seed-rotated palette (all registered element "
    "types incl. private K/Ky and containers, open R=inf and shorted R=0 branches, a user-defined element that is a short "
    "below a cut-off frequency); plus Hypothesis-generated random trees up to 14 leaves with in-limit random parameter "
    "values and frequency vectors of length 1..40 in any order with duplicates over 1e-6..1e9 Hz. Oracle: own composition-law "
    "evaluator over each leaf's own public get_impedances; object / CircuitBuilder / parse_cdc construction; array vs "
    "point-wise; Circuit vs Connection vs simulate_spectrum; child permutation + flattening; resistor-only sub-circuits of "
    "a container collapsed to one equivalent resistor. Non-trivial: >= 2 leaves, >= 1 parallel node, library returned "
    "values (or an all-open circuit was refused); distinct by SHA-1 of (ast, frequencies)."
)
ASSUMPTIONS = [
    "leaf impedances are taken from the leaf element's own public get_impedances (C02 decides those)",
    "tolerance rel 1e-12*kappa (objects, CDC at 17 digits; the CircuitBuilder path is compared with the object circuit whose values are rounded to the builder's 12 decimals); kappa = cancellation factor of the reference sums; kappa > 1e6 is trivial",
]
SHARDS = {"quick": 8, "thorough": 16}
FLOOR = 0.5
REQUIRED_CLASSES = {
    "quick": ["open-branch", "shorted-branch", "partial-short", "container", "private-element", "depth>=3", "unordered-f", "single-f", "all-open-refused", "empty-connection", "open-branch-non-resistor", "builder-history", "builder-mutate-returned", "container-isolation"],
    "thorough": ["open-branch", "shorted-branch", "partial-short", "container", "private-element", "depth>=3", "unordered-f", "single-f", "all-open-refused", "empty-connection", "open-branch-non-resistor", "builder-history", "builder-mutate-returned", "container-isolation"],
}

USER_SYMBOL = "Xps"
_registered = False


def setup(ctx):
    """Register (publicly documented API) a user element that is a short below its cut-off frequency."""
    global _registered
    if _registered:
        return
    from pyimpspec import Element, ElementDefinition, ParameterDefinition, register_element

    class PartialShort(Element):
        def _impedance(self, f, R, fc):
            return np.where(f < fc, 0.0, R).astype(complex)

    register_element(
        ElementDefinition(
            Class=PartialShort,
            symbol=USER_SYMBOL,
            name="Partial short",
            description="Test-side element: a short below the cut-off frequency, a resistor above it.",
            equation="R*Heaviside(f - fc, 1)",
            parameters=[
                ParameterDefinition(symbol="R", unit="ohm", description="", value=50.0, lower_limit=0.0, upper_limit=math.inf, fixed=False),
                ParameterDefinition(symbol="fc", unit="Hz", description="", value=10.0, lower_limit=0.0, upper_limit=math.inf, fixed=False),
            ],
        ),
        validate_impedances=False,
        private=True,
    )
    _registered = True


def all_symbols():
    return sorted(s for s in G.element_classes(private=True) if s != USER_SYMBOL)


# ---------------------------------------------------------------------------- strategies
@st.composite
def frequencies(draw):
    n = draw(st.integers(1, 40))
    fs = draw(st.lists(st.floats(-6, 9, allow_nan=False).map(lambda e: 10.0**e), min_size=n, max_size=n))
    mode = draw(st.sampled_from(["as-drawn", "desc", "asc", "dups"]))
    if mode == "desc":
        fs = sorted(fs, reverse=True)
    elif mode == "asc":
        fs = sorted(fs)
    elif mode == "dups":
        fs = fs + fs[: max(1, n // 3)]
    return fs


@st.composite
def random_case(draw):
    syms = all_symbols()
    # weight towards simple elements so that open/short idioms are frequent
    weighted = syms + ["R"] * 6 + ["C", "L", "Q", "W"] * 2 + [USER_SYMBOL] * 2
    ast = draw(G.st_tree(weighted, max_leaves=draw(st.sampled_from([3, 5, 8, 14])), state="values", allow_open=True))
    return {"ast": ast, "f": draw(frequencies())}


def palette(seed: int):
    """Leaf palette for the exhaustive shapes; rotated by the seed."""
    E = lambda sym, **p: ["E", sym, {k: {"v": v} for k, v in p.items()}, "", None]
    items = [
        E("R", R=100.0), E("C", C=1e-5), E("R", R=math.inf), E("L", L=1e-3), E("R", R=0.0), E("Q", Y=1e-4, n=0.8),
        E("R", R=7.5), E(USER_SYMBOL, R=20.0, fc=5.0), E("W", Y=0.01), E("K", R=-3.0, tau=0.01), E("Zarc", R=50.0, tau=1e-3, n=0.9),
        E("R", R=math.inf), E("Ky", C=2.0, tau=0.1), E("Tlm"), E("G"), E("Ws"), E("R", R=1e6), E("La", L=1e-4, n=0.9),
        E("C", C=3e-3), E("R", R=0.0), E("H"), E("Ls"), E("Wo"), E("Tlmns"),
        E("Zarc", R=math.inf), E("Ga", R=math.inf), E("K", R=-math.inf, tau=0.5), E("Ha", R=math.inf),
        ["S", []], ["P", []], ["S", [["S", []]]],  # empty connections: an ideal wire (only the object API can build them)
    ]
    k = seed % len(items)
    return items[k:] + items[:k]


def shape_cases(ctx):
    pal = palette(ctx.seed)
    f = [1e5, 3.0, 1e-2, 777.0, 3.0]
    idx = 0
    nmax_plain = ctx.q(5, 6)
    nmax_unary = ctx.q(3, 4)
    reps = ctx.q(1, 3)
    for n in range(1, nmax_plain + 1):
        for unary in (False, True):
            if unary and n > nmax_unary:
                continue
            shapes = G.enumerate_shapes(n, unary=unary)
            if unary:
                plain = set(G.enumerate_shapes(n, unary=False))
                shapes = [s for s in shapes if s not in plain]
            for shape in shapes:
                for r in range(reps):
                    leaves = [pal[(idx * 5 + i * 7 + r * 11) % len(pal)] for i in range(n)]
                    idx += 1
                    yield {"ast": G.shape_to_ast(shape, leaves), "f": f}


@st.composite
def container_case(draw):
    """Tlm whose sub-circuits are resistor-only trees (or open/short): collapse each to one resistor."""
    rval = st.floats(-2, 4, allow_nan=False).map(lambda e: 10.0**e)

    def rtree(depth=0):
        leaf = st.builds(lambda v: ["E", "R", {"R": {"v": v}}, "", None], rval)
        if depth >= 2:
            return leaf
        return st.one_of(
            leaf,
            st.builds(lambda k, ch: [k, ch], st.sampled_from(["S", "P"]), st.lists(st.deferred(lambda: rtree(depth + 1)), min_size=2, max_size=3)),
        )

    subs = {}
    for key in ("X_1", "X_2", "Z_A", "Z_B", "Zeta"):
        c = draw(st.integers(0, 4))
        if key == "Zeta":
            c = max(c, 2)  # Zeta finite
        if c == 0:
            subs[key] = "open" if key in ("Z_A", "Z_B") else "short"
        elif c == 1:
            subs[key] = "short"
        else:
            t = draw(rtree())
            subs[key] = t if t[0] != "E" else ["S", [t]]
    L = draw(st.floats(-1, 1, allow_nan=False).map(lambda e: 10.0**e))
    return {"subs": subs, "L": L, "f": draw(frequencies())}


# ---------------------------------------------------------------------------- oracle
def _close(a, b, tol):
    a, b = complex(a), complex(b)
    if a == b:
        return True
    return abs(a - b) <= tol * max(abs(a), abs(b)) + 1e-300


def lib_eval(fn):
    """(values, None) or (None, refusal-kind)."""
    from pyimpspec.exceptions import ImpedanceError, InfiniteImpedance

    try:
        with np.errstate(all="ignore"):
            return np.asarray(fn()), None
    except InfiniteImpedance:
        return None, "infinite"
    except ImpedanceError as e:
        return None, type(e).__name__
    except NotImplementedError as e:
        if "cannot be" in str(e) or "not implemented" in str(e).lower() or True:
            return None, "not-implemented"


def body(ctx, case):
    from pyimpspec import Circuit, parse_cdc, simulate_spectrum

    ast, fs = case["ast"], [float(x) for x in case["f"]]
    labels = set()
    els = G.ast_elements(ast)
    n_leaves = len(G.ast_elements(ast, nested=False))
    vals = [p.get("v") for e in els for p in e[2].values()]
    has_inf = any(v is not None and math.isinf(v) for v in vals)
    if any(e[1] == "R" and (e[2].get("R") or {}).get("v") == math.inf for e in els):
        labels.add("open-branch")
    if any(e[1] != "R" and abs((e[2].get("R") or {}).get("v") or 0.0) == math.inf for e in els):
        labels.add("open-branch-non-resistor")
    if any(e[1] == "R" and (e[2].get("R") or {}).get("v") == 0.0 for e in els):
        labels.add("shorted-branch")
    if any(e[1] == USER_SYMBOL for e in els):
        labels.add("partial-short")
    if any(e[4] is not None for e in els):
        labels.add("container")
    if any(e[1] in ("K", "Ky") for e in els):
        labels.add("private-element")
    if G.ast_depth(ast) >= 3:
        labels.add("depth>=3")
    if len(fs) == 1:
        labels.add("single-f")
    if fs != sorted(fs) and fs != sorted(fs, reverse=True):
        labels.add("unordered-f")
    if len(set(fs)) != len(fs):
        labels.add("duplicate-f")

    has_empty = _has_empty(ast)
    if has_empty:
        labels.add("empty-connection")
    circuit = G.build_objects(ast)
    top = G.top_connection(circuit)
    farr = np.array(fs, dtype=float)

    # --- reference
    cache = {}
    ref = []
    kappa = 1.0
    try:
        for f in fs:
            z, k = G.ref_Z(top, f, cache)
            ref.append(z)
            kappa = max(kappa, k)
    except G.RefAbort as e:
        ctx.record(case, False, labels, "a leaf element refused (overflow/NaN/unsupported Tlm configuration)")
        return
    n_open = sum(1 for z in ref if z is G.OPEN)
    lib, refusal = lib_eval(lambda: circuit.get_impedances(farr))

    if n_open == len(ref):
        ok = ctx.check(refusal == "infinite", "open-circuit-refused", case, f"reference: open at every frequency; library returned {lib!r} / {refusal}")
        labels.add("all-open-refused")
        ctx.record(case, ok and n_leaves >= 2, labels, "single leaf")
        return
    if n_open > 0:
        ctx.record(case, False, labels, "leaf overflows at some frequencies only")
        return
    refarr = np.array(ref, dtype=complex)
    if not np.all(np.isfinite(refarr)) or not math.isfinite(kappa) or kappa > 1e6:
        ctx.record(case, False, labels, "reference overflow or cancellation-dominated (kappa > 1e6)")
        return
    if lib is None:
        ctx.fail("library-refuses-finite-circuit", case, f"reference finite everywhere (kappa={kappa:.3g}) but library raised {refusal}")
        ctx.record(case, False, labels, "library refused")
        return
    tol = 1e-12 * kappa
    ok = True
    ok &= ctx.check(lib.shape == refarr.shape, "array-shape", case, f"{lib.shape} != {refarr.shape}")
    if not ok:
        ctx.record(case, False, labels, "shape")
        return
    bad = [i for i in range(len(fs)) if not _close(lib[i], refarr[i], tol)]
    ok &= ctx.check(not bad, "composition-law", case, f"f={[fs[i] for i in bad[:3]]}: library {[complex(lib[i]) for i in bad[:3]]} != reference {[complex(refarr[i]) for i in bad[:3]]} (kappa={kappa:.3g})")
    worst = max((abs(lib[i] - refarr[i]) / max(abs(refarr[i]), 1e-300) / kappa for i in range(len(fs))), default=0.0)
    ctx.observe("rel-dev/kappa object-vs-reference", worst)

    # --- (c) point-wise evaluation == array evaluation
    pw = []
    for f in fs[:12]:
        v, r = lib_eval(lambda: circuit.get_impedances(np.array([f])))
        pw.append(v[0] if v is not None else None)
    bad = [i for i, v in enumerate(pw) if v is None or not _close(v, lib[i], tol)]
    ok &= ctx.check(not bad, "pointwise-equals-array", case, f"indices {bad[:3]}: pointwise {[pw[i] for i in bad[:3]]} vs array {[complex(lib[i]) for i in bad[:3]]}")

    # --- (a) other evaluation entry points
    v, r = lib_eval(lambda: top.get_impedances(farr))
    ok &= ctx.check(v is not None and np.array_equal(v, lib), "connection-equals-circuit", case, f"Connection.get_impedances differs ({r})")
    if len(set(fs)) == len(fs):
        try:
            ds = simulate_spectrum(circuit, farr)
            m = dict(zip(ds.get_frequencies(masked=None).tolist(), ds.get_impedances(masked=None).tolist()))
            ok &= ctx.check(all(m.get(f) == complex(z) for f, z in zip(fs, lib)), "simulate-spectrum", case, "simulate_spectrum does not map each frequency to the circuit's impedance")
        except Exception as e:  # noqa: BLE001
            ctx.crash("simulate-spectrum", case, e)
            ok = False

    # --- (b) construction paths
    if not has_inf and not has_empty:
        text, _ = G.print_cdc(ast)
        try:
            parsed = parse_cdc(text)
            v, r = lib_eval(lambda: parsed.get_impedances(farr))
            bad = [] if v is not None else [0]
            if v is not None:
                bad = [i for i in range(len(fs)) if not _close(v[i], lib[i], tol)]
            ok &= ctx.check(not bad, "parsed-equals-objects", case, f"parse_cdc({text!r}) gives {None if v is None else [complex(v[i]) for i in bad[:3]]} ({r}) vs objects {[complex(lib[i]) for i in bad[:3]]}")
        except Exception as e:  # noqa: BLE001
            ctx.crash("parsed-equals-objects", case, e)
            ok = False
        if not G.ast_has(ast, "P") or all(len(c[1]) >= 2 for c in _nodes(ast, "P")):
            try:
                built = G.build_builder(ast)
                v, r = lib_eval(lambda: built.get_impedances(farr))
                # the builder serialises with 12 decimals: it must equal the circuit whose values are rounded so
                rounded = G.build_objects(G.round_ast(ast, 12))
                w, rw = lib_eval(lambda: rounded.get_impedances(farr))
                if w is not None:
                    bad = [0] if v is None else [i for i in range(len(fs)) if not _close(v[i], w[i], tol)]
                    ok &= ctx.check(not bad, "builder-equals-objects", case, f"CircuitBuilder gives {None if v is None else [complex(v[i]) for i in bad[:3]]} ({r}) vs objects with 12-decimal values {[complex(w[i]) for i in bad[:3]]}")
                else:
                    ok &= ctx.check(v is None, "builder-equals-objects", case, f"objects with 12-decimal values refused ({rw}) but the builder circuit returned values")
            except Exception as e:  # noqa: BLE001
                ctx.crash("builder-equals-objects", case, e)
                ok = False

    # --- (e) metamorphic: flatten + reverse children
    # (an empty connection is a wire by the library's convention: merging an empty parallel connection into its parent
    # would turn a short into nothing, so the flattening clause only mirrors such circuits)
    mirrored = _mirror(ast if has_empty else G.normalize_root(ast))
    c2 = G.build_objects(mirrored)
    v, r = lib_eval(lambda: c2.get_impedances(farr))
    bad = [0] if v is None else [i for i in range(len(fs)) if not _close(v[i], lib[i], 4 * tol)]
    ok &= ctx.check(not bad, "permutation-flattening", case, f"flattened+reversed circuit gives {None if v is None else [complex(v[i]) for i in bad[:3]]} ({r})")

    nontrivial = n_leaves >= 2 and G.ast_has(ast, "P")
    ctx.record(case, nontrivial, labels, "fewer than 2 leaves or no parallel node")


def _has_empty(ast):
    if ast[0] in ("S", "P"):
        return len(ast[1]) == 0 or any(_has_empty(c) for c in ast[1])
    return False


def _nodes(ast, kind):
    out = []
    if ast[0] in ("S", "P"):
        if ast[0] == kind:
            out.append(ast)
        for c in ast[1]:
            out.extend(_nodes(c, kind))
    return out


def _mirror(ast):
    if ast[0] in ("S", "P"):
        return [ast[0], [_mirror(c) for c in reversed(ast[1])]]
    return ast


def _r_equiv(ast):
    """Equivalent resistance of a resistor-only tree by our own composition law."""
    if ast[0] == "E":
        return ast[2]["R"]["v"]
    vals = [_r_equiv(c) for c in ast[1]]
    if ast[0] == "S":
        return sum(vals)
    if any(v == 0 for v in vals):
        return 0.0
    return 1.0 / sum(1.0 / v for v in vals)


def container_body(ctx, case):
    fs = np.array(case["f"], dtype=float)
    subs = case["subs"]
    collapsed = {k: (v if isinstance(v, str) else ["S", [["E", "R", {"R": {"v": _r_equiv(v)}}, "", None]]]) for k, v in subs.items()}
    a = G.build_element(["E", "Tlm", {"L": {"v": case["L"]}}, "", subs])
    b = G.build_element(["E", "Tlm", {"L": {"v": case["L"]}}, "", collapsed])
    va, ra = lib_eval(lambda: a.get_impedances(fs))
    vb, rb = lib_eval(lambda: b.get_impedances(fs))
    labels = {"container", "container-collapse"}
    if va is None or vb is None:
        ctx.check(ra == rb, "container-subcircuit-composition", case, f"verdicts differ: {ra} vs {rb}")
        ctx.record(case, False, labels, "Tlm configuration refused")
        return
    ok = all(_close(x, y, 1e-9) for x, y in zip(va, vb))
    ctx.check(ok, "container-subcircuit-composition", case, f"Tlm with sub-circuit trees {va[:3]} != Tlm with collapsed resistors {vb[:3]}")
    nontrivial = any(isinstance(v, list) and len(G.ast_elements(v)) >= 2 for v in subs.values())
    ctx.record(case, nontrivial, labels, "no composite sub-circuit")


@st.composite
def builder_case(draw):
    syms = ["R", "C", "L", "Q", "W", "Zarc", "G", "Ws", "Tlm", "La"] + ["R", "C"] * 3
    ast = draw(G.st_tree(syms, max_leaves=draw(st.sampled_from([3, 5, 8])), min_leaves=2, state="values", canonical=True))
    n_steps = 4 * len(G.ast_elements(ast)) + 8
    peeks = draw(st.lists(st.sampled_from(["", "", "str-root", "to_string-root", "to_circuit-root", "str-current", "to_circuit-current"]), min_size=n_steps, max_size=n_steps))
    iadd = draw(st.lists(st.booleans(), min_size=n_steps, max_size=n_steps))
    return {"ast": ast, "f": draw(frequencies())[:8], "peeks": peeks, "iadd": iadd, "mutate": draw(st.booleans())}


def builder_body(ctx, case):
    """A building *history*: renders (str / to_string / to_circuit) interleaved with the construction steps must not
    change what the finished builder produces, and circuits it returns are independent of each other."""
    ast, fs = case["ast"], np.array(case["f"], dtype=float)
    peeks = list(case["peeks"])
    step = [0]
    n_peeks = [0]

    def peek(root, current):
        i = step[0]
        step[0] += 1
        kind = peeks[i] if i < len(peeks) else ""
        if not kind:
            return
        target = root if kind.endswith("root") else current
        n_peeks[0] += 1
        try:
            if kind.startswith("str"):
                str(target)
            elif kind.startswith("to_string"):
                target.to_string()
            else:
                target.to_circuit()
        except Exception:  # noqa: BLE001  a half-built circuit (e.g. a parallel connection with one path) may be refused
            pass

    labels = {"builder-history"}
    try:
        b = G.build_builder(ast, peek=peek, use_iadd=lambda i: case["iadd"][i] if i < len(case["iadd"]) else False)
        built = b.to_circuit()
    except Exception as e:  # noqa: BLE001
        ctx.crash("builder-history", case, e)
        ctx.record(case, False, labels, "builder raised")
        return
    rounded = G.build_objects(G.round_ast(ast, 12))
    w, rw = lib_eval(lambda: rounded.get_impedances(fs))
    v, r = lib_eval(lambda: built.get_impedances(fs))
    if w is None:
        ctx.check(v is None, "builder-history", case, f"object circuit refused ({rw}) but the builder circuit returned values")
        ctx.record(case, False, labels, "reference circuit refused")
        return
    bad = [0] if v is None else [i for i in range(len(fs)) if not _close(v[i], w[i], 1e-9)]
    ctx.check(not bad, "builder-history", case, f"builder with interleaved renders gives {None if v is None else [complex(v[i]) for i in bad[:3]]} ({r}); objects give {[complex(w[i]) for i in bad[:3]]}; text {str(b)!r}")
    ctx.check(len(G.all_elements(built)) == len(G.all_elements(rounded)), "builder-history", case, f"builder circuit has {len(G.all_elements(built))} elements, the equivalent object circuit {len(G.all_elements(rounded))}")
    if case["mutate"]:
        labels.add("builder-mutate-returned")
        first = built.get_elements()[0]
        key = sorted(first.get_values())[0]
        try:
            first.set_values(key, first.get_value(key) * 0.5 if first.get_value(key) != 0 else 1.0)
        except Exception:  # noqa: BLE001
            pass
        again = b.to_circuit()
        v2, r2 = lib_eval(lambda: again.get_impedances(fs))
        bad = [0] if v2 is None else [i for i in range(len(fs)) if not _close(v2[i], w[i], 1e-9)]
        ctx.check(again is not built and not bad, "builder-returns-independent-circuits", case, "a circuit returned earlier was modified; the builder's next to_circuit() reflects that modification")
    ctx.record(case, n_peeks[0] > 0, labels, "no interleaved render")


def ctor_cases(ctx):
    yield {"form": "list"}
    yield {"form": "element"}
    yield {"form": "parallel"}
    yield {"form": "series"}


def ctor_body(ctx, case):
    """Documented constructor forms of Circuit."""
    from pyimpspec import Capacitor, Circuit, Parallel, Resistor, Series

    f = np.array([1.0, 100.0])
    R, C = Resistor(R=10.0), Capacitor(C=1e-3)
    zr, zc = R.get_impedances(f), C.get_impedances(f)
    form = case["form"]
    try:
        if form == "list":
            c, ref = Circuit([R, C]), zr + zc
        elif form == "element":
            c, ref = Circuit(R), zr
        elif form == "parallel":
            c, ref = Circuit(Parallel([R, C])), 1 / (1 / zr + 1 / zc)
        else:
            c, ref = Circuit(Series([R, C])), zr + zc
        z = c.get_impedances(f)
        ctx.check(bool(np.allclose(z, ref, rtol=1e-12, atol=0)), "constructor-forms", case, f"{form}: {z} != {ref}")
        s = c.to_string()
        ctx.check(isinstance(s, str) and len(c.get_elements()) == (1 if form == "element" else 2), "constructor-forms", case, f"{form}: to_string/get_elements")
    except Exception as e:  # noqa: BLE001
        ctx.crash("constructor-forms", case, e)
    ctx.record(case, form != "element", {"ctor:" + form}, "single element")


def isolation_cases(ctx):
    """Every container class x every connection-valued default sub-circuit x in-place edit x way of building the next one."""
    from pyimpspec.circuit.base import Container

    for sym, cls in sorted(G.element_classes(private=True).items()):
        if not issubclass(cls, Container) or sym.startswith("X"):
            continue
        for key, sub in sorted(cls().get_subcircuits().items()):
            if sub is None:
                continue
            for edit in ("append", "value"):
                if edit == "value" and not sub.get_elements():
                    continue
                for route in ("constructor", "parsed", "parsed-pair"):
                    yield {"sym": sym, "key": key, "edit": edit, "route": route}


def isolation_body(ctx, item):
    """The impedance of a circuit does not depend on what was done earlier to *another* object of the same class: a
    container left at its default sub-circuits is edited in place, then a new one is built."""
    from pyimpspec import parse_cdc
    from pyimpspec.circuit.elements import Resistor

    cls = G.element_classes(private=True)[item["sym"]]
    f = np.logspace(-2, 5, 8)
    z_ref = cls().get_impedances(f)
    default_text = {k: (v.to_string(12) if v is not None else None) for k, v in cls().get_subcircuits().items()}
    a = cls()
    sub = a.get_subcircuit(item["key"])
    if item["edit"] == "append":
        sub.append(Resistor(R=0.37))
    else:
        el = sub.get_elements()[0]
        k, v = sorted(el.get_values().items())[0]
        el.set_values(**{k: v * 1.7})
    if item["route"] == "constructor":
        b = cls()
    elif item["route"] == "parsed":
        b = parse_cdc(item["sym"]).get_elements()[0]
    else:
        b = parse_cdc(f"[{item['sym']}{item['sym']}]").get_elements()[1]
    now = {k: (v.to_string(12) if v is not None else None) for k, v in b.get_subcircuits().items()}
    ok = ctx.check(now == default_text, "fresh-container-has-default-subcircuits", item,
                   f"after editing sub-circuit {item['key']} of one {item['sym']} in place ({item['edit']}), a new {item['sym']} ({item['route']}) starts with {now} instead of {default_text}")
    try:
        z_b = b.get_impedances(f)
        ok &= ctx.check(bool(np.array_equal(z_b, z_ref)), "impedance-independent-of-earlier-objects", item, f"a new {item['sym']} gives {z_b[:2]} instead of {z_ref[:2]} after another instance was edited")
    except Exception as e:  # noqa: BLE001
        ctx.fail("impedance-independent-of-earlier-objects", item, f"a new {item['sym']} raises {type(e).__name__} after another instance was edited: {e}")
    ctx.record(item, True, ["container-isolation", "isolation:" + item["route"]])


def parts(ctx):
    return [
        Part("container-isolation", isolation_body, items=isolation_cases, exhaustive=True, shard=False),
        Part("constructor-forms", ctor_body, items=ctor_cases, exhaustive=True, shard=False),
        Part("shapes-exhaustive", body, items=shape_cases, exhaustive=True),
        Part("random-circuits", body, strategy=random_case(), n={"quick": 3200, "thorough": 30000}),
        Part("container-collapse", container_body, strategy=container_case(), n={"quick": 800, "thorough": 8000}),
        Part("builder-histories", builder_body, strategy=builder_case(), n={"quick": 1200, "thorough": 8000}),
    ]
