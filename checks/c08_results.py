"""C08 — every analysis result is internally consistent with the data it came from (DESIGN.md section 4, C08)."""
from __future__ import annotations

import copy
import json
import math

import numpy as np
from hypothesis import strategies as st

from vlib import gen_spectra as S
from vlib.runner import Part
from vlib.timeouts import TimeLimit

PROPERTY = "C08"
RULE = (
    "Entry points perform_kramers_kronig_test, evaluate_log_F_ext, perform_exploratory_kramers_kronig_tests, perform_zhit, "
    "calculate_drt[tr-nnls | lm | bht | mrq-fit], fit_circuit x a drawn option set each x Hypothesis-generated noisy RC/RQ "
    "ladder spectra (8..60 points, supplied ascending or descending) x mask subsets (0..40 % of the points, first/last point "
    "included) x arbitrary values on the masked points. Oracle, for every result object found anywhere in the returned value: "
    "frequencies == data.get_frequencies(); residuals == (Z_data - Z_model)/|Z_data| (rel 1e-12); pseudo_chisqr == sum "
    "|residuals|^2 (rel 1e-9); impedances == circuit.get_impedances(frequencies) where a circuit is attached; a twin data set "
    "whose masked points carry different garbage (huge, tiny, negative, NaN) gives bit-identical result fields; the data set "
    "(to_dict) and an input circuit (serialize) are unchanged. Non-trivial: >= 1 masked point and a result returned; "
    "distinct by SHA-1 of the case."
)
ASSUMPTIONS = [
    "bht draws from numpy's global RNG: the harness seeds it identically before the two twin calls",
    "small option sets per entry point (one cheap and one automatic configuration); cost-bounded counts per tier",
]
SHARDS = {"quick": 8, "thorough": 16}
FLOOR = 0.4
ENTRY = ["kk", "kk-auto", "kk-evaluate", "kk-exploratory", "zhit", "drt-tr-nnls", "drt-lm", "drt-bht", "drt-mrq-fit", "fit"]
REQUIRED_CLASSES = {t: ["entry:" + e for e in ENTRY] + ["masked", "ascending-input", "garbage:nan", "negative-resistance"] for t in ("quick", "thorough")}


@st.composite
def spectrum(draw, max_points=60):
    n = draw(st.integers(8, max_points))
    decades = draw(st.integers(3, 6))
    top = draw(st.floats(2, 6))
    f = np.logspace(top, top - decades, n)
    lo, hi = math.log10(1 / (2 * math.pi * f.max())) + 0.5, math.log10(1 / (2 * math.pi * f.min())) - 0.5
    els = [[draw(st.floats(10, 1000)), 10.0 ** draw(st.floats(lo, hi)), draw(st.sampled_from([1.0, 0.9, 0.8]))] for _ in range(draw(st.integers(1, 2)))]
    if draw(st.integers(0, 4)) == 0:
        els[0][0] = -els[0][0]  # negative differential resistance: Re(Z) and Re(Y) change sign along the spectrum
    mask_n = draw(st.integers(0, int(0.4 * n)))
    idx = draw(st.lists(st.integers(0, n - 1), min_size=mask_n, max_size=mask_n, unique=True))
    if idx and draw(st.booleans()):
        idx[0] = draw(st.sampled_from([0, n - 1]))
    idx = sorted(set(idx))
    return {
        "n": n, "decades": decades, "top": top, "R0": draw(st.floats(1, 100)), "els": els, "noise": draw(st.sampled_from([0.0, 0.05, 0.5])),
        "seed": draw(st.integers(0, 2**31)), "mask": idx, "ascending": draw(st.booleans()),
        "garbage": draw(st.sampled_from(["huge", "tiny", "negative", "nan", "mixed"])),
    }


def _opts(entry):
    kk_test = st.sampled_from(["complex", "real", "imaginary", "complex-inv", "real-inv", "imaginary-inv"])
    adm = st.sampled_from([False, True])
    if entry == "kk":
        return st.fixed_dictionaries({"test": st.one_of(kk_test, kk_test, st.just("cnls")), "num_RC": st.integers(3, 8), "admittance": adm, "add_capacitance": st.booleans(), "add_inductance": st.booleans(), "num_F_ext_evaluations": st.just(0), "log_F_ext": st.sampled_from([0.0, 0.3])})
    if entry == "kk-auto":
        return st.fixed_dictionaries({"test": kk_test, "admittance": st.sampled_from([None, False, True]), "num_F_ext_evaluations": st.sampled_from([0, 4])})
    if entry == "kk-evaluate":
        return st.fixed_dictionaries({"test": kk_test, "admittance": adm, "num_F_ext_evaluations": st.sampled_from([0, 4, 6]), "rapid_F_ext_evaluations": st.booleans()})
    if entry == "kk-exploratory":
        return st.fixed_dictionaries({"test": kk_test, "admittance": st.sampled_from([None, False, True]), "num_F_ext_evaluations": st.sampled_from([0, 4])})
    if entry == "zhit":
        return st.fixed_dictionaries({"smoothing": st.sampled_from(["none", "lowess", "savgol", "modsinc", "whithend"]), "interpolation": st.sampled_from(["akima", "makima", "cubic", "pchip"]),
                                      "window": st.sampled_from(["boxcar", "hann", "auto"]), "admittance": adm, "center": st.sampled_from([1.5, 2.5]), "width": st.sampled_from([3.0, 2.0])})
    if entry == "drt-tr-nnls":
        return st.fixed_dictionaries({"mode": st.sampled_from(["real", "imaginary"]), "lambda_value": st.sampled_from([1e-3, 1e-2, -1.0, -2.0])})
    if entry == "drt-lm":
        return st.fixed_dictionaries({"model_order": st.sampled_from([0, 2, 3]), "model_order_method": st.sampled_from(["matrix_rank", "pseudo_chisqr"])})
    if entry == "drt-bht":
        return st.fixed_dictionaries({"num_samples": st.just(200), "num_attempts": st.sampled_from([1, 3]), "rbf_type": st.sampled_from(["gaussian", "c2-matern"])})
    if entry == "drt-mrq-fit":
        return st.fixed_dictionaries({"cdc": st.sampled_from(["R(RQ)", "R(RQ)(RC)"]), "num_per_decade": st.just(20)})
    return st.fixed_dictionaries({"cdc": st.sampled_from(["R(RC)", "R(RQ)", "R(RC)(RQ)"]), "method": st.sampled_from(["leastsq", "least_squares", "nelder", "powell", "lbfgsb", "bfgs", "tnc", "cg", "slsqp", ["leastsq", "least_squares"], ["nelder", "lbfgsb"]]),
                                  "weight": st.sampled_from(["boukamp", "modulus", ["unity", "proportional"]]), "max_nfev": st.sampled_from([20, 200, 1000, -1])})  # aborted early, aborted late, converged, unlimited


@st.composite
def case_strategy(draw, entries):
    entry = draw(st.sampled_from(entries))
    small = entry in ("kk-exploratory", "kk-evaluate", "kk-auto", "zhit", "drt-bht", "drt-mrq-fit")
    return {"entry": entry, "spec": draw(spectrum(30 if small else 60)), "opts": draw(_opts(entry))}


# ---------------------------------------------------------------------------- helpers
def build(spec, variant):
    from pyimpspec import DataSet

    f = np.logspace(spec["top"], spec["top"] - spec["decades"], spec["n"])
    Z = S.ladder(f, spec["R0"], [tuple(e) for e in spec["els"]])
    if spec["noise"]:
        Z = S.add_noise(Z, spec["noise"], spec["seed"])
    Z = Z.copy()
    kinds = {"huge": [1e30 + 1e30j], "tiny": [1e-30 - 1e-30j], "negative": [-5e3 + 7e3j], "nan": [complex(math.nan, math.nan)], "mixed": [1e30 + 0j, -1e-12j, complex(math.nan, 1.0)]}[spec["garbage"]]
    if variant == 1:
        for k, i in enumerate(spec["mask"]):
            Z[i] = kinds[k % len(kinds)]
    mask = {i: True for i in spec["mask"]}
    if spec["ascending"]:
        n = spec["n"]
        return DataSet(f[::-1].copy(), Z[::-1].copy(), mask={n - 1 - i: True for i in spec["mask"]})
    return DataSet(f, Z, mask=mask)


def run_entry(entry, opts, data):
    import pyimpspec
    from pyimpspec import calculate_drt, fit_circuit, parse_cdc, perform_exploratory_kramers_kronig_tests, perform_kramers_kronig_test, perform_zhit
    from pyimpspec.analysis.kramers_kronig import evaluate_log_F_ext

    circuit = None
    if entry in ("kk", "kk-auto"):
        out = perform_kramers_kronig_test(data, num_procs=1, **opts)
    elif entry == "kk-evaluate":
        out = evaluate_log_F_ext(data, num_procs=1, **opts)
    elif entry == "kk-exploratory":
        out = perform_exploratory_kramers_kronig_tests(data, num_procs=1, **opts)
    elif entry == "zhit":
        out = perform_zhit(data, num_procs=1, **opts)
    elif entry == "drt-tr-nnls":
        out = calculate_drt(data, method="tr-nnls", **opts)
    elif entry == "drt-lm":
        out = calculate_drt(data, method="lm", num_procs=1, **opts)
    elif entry == "drt-bht":
        np.random.seed(12345)
        out = calculate_drt(data, method="bht", num_procs=1, **opts)
    elif entry == "drt-mrq-fit":
        circuit = parse_cdc(opts["cdc"])
        out = calculate_drt(data, method="mrq-fit", circuit=circuit, num_per_decade=opts["num_per_decade"], num_procs=1)
    else:
        circuit = parse_cdc(opts["cdc"])
        for el in circuit.get_elements():
            if el.get_symbol() == "R":
                el.set_values(R=50.0)
            if el.get_symbol() == "C":
                el.set_values(C=1e-5)
        out = fit_circuit(circuit, data, method=opts["method"], weight=opts["weight"], max_nfev=opts["max_nfev"], num_procs=1)
    return out, circuit


def collect(obj, acc, depth=0):
    if depth > 6:
        return
    if all(hasattr(obj, a) for a in ("frequencies", "impedances", "residuals", "pseudo_chisqr")):
        acc.append(obj)
        return
    if isinstance(obj, (list, tuple)):
        for x in obj:
            collect(x, acc, depth + 1)
    elif isinstance(obj, dict):
        for x in obj.values():
            collect(x, acc, depth + 1)


def _fields(res):
    out = {}
    for k, v in vars(res).items():
        if isinstance(v, np.ndarray):
            out[k] = v
        elif isinstance(v, (int, float, complex, str, bool)) or v is None:
            out[k] = v
        elif k == "circuit" and v is not None:
            out[k] = v.to_string(17)
    return out


def _same(a, b):
    if isinstance(a, np.ndarray):
        return isinstance(b, np.ndarray) and a.shape == b.shape and bool(np.array_equal(a, b, equal_nan=True))
    if isinstance(a, float) and isinstance(b, float) and math.isnan(a) and math.isnan(b):
        return True
    return a == b


def body(ctx, case):
    from pyimpspec.exceptions import DRTError, FittingError, KramersKronigError, ZHITError

    entry, spec, opts = case["entry"], case["spec"], case["opts"]
    labels = {"entry:" + entry}
    if spec["mask"]:
        labels.add("masked")
        labels.add("garbage:" + spec["garbage"])
    if spec["ascending"]:
        labels.add("ascending-input")
    if any(e[0] < 0 for e in spec["els"]):
        labels.add("negative-resistance")
    d0, d1 = build(spec, 0), build(spec, 1)
    snap = json.dumps(d0.to_dict(), sort_keys=True, default=str)
    # RuntimeError: scipy's nnls gives up ("Maximum number of iterations reached") - whether that is acceptable is C18's subject
    from pyimpspec.exceptions import ImpedanceError

    refusals = (DRTError, FittingError, KramersKronigError, ZHITError, ImpedanceError, ValueError, RuntimeError, ArithmeticError)
    try:
        out0, c0 = run_entry(entry, opts, d0)
    except refusals as e:
        ctx.record(case, False, labels, f"refused: {type(e).__name__}")
        return
    except TimeLimit:
        raise
    except Exception as e:  # noqa: BLE001
        # the property speaks of "every result object returned": an analysis that raises returns none. Whether it may raise
        # this way is C18's subject (e.g. known finding F34: automatic num_RC on 4-5 points); here it is counted and labelled.
        labels.add("raised-instead-of-returning")
        ctx.record(case, False, sorted(labels), f"raised: {type(e).__name__}: {str(e)[:80]}")
        return
    csnap = None
    results = []
    collect(out0, results)
    if not results:
        ctx.fail("no-result-object", case, f"{entry} returned {type(out0).__name__} without any result object")
        ctx.record(case, False, labels, "no result")
        return
    f_un = d0.get_frequencies()
    Z_un = d0.get_impedances()
    for k, r in enumerate(results):
        tag = f"{entry} result {k}/{len(results)} ({type(r).__name__})"
        fr = np.asarray(r.frequencies)
        if not ctx.check(fr.shape == f_un.shape and bool(np.array_equal(fr, f_un)), "frequencies-are-unmasked-input", case, f"{tag}: {fr.shape} frequencies vs {f_un.shape} unmasked points"):
            continue
        Zm = np.asarray(r.impedances)
        res = np.asarray(r.residuals)
        want = (Z_un - Zm) / np.abs(Z_un)
        dev = float(np.max(np.abs(res - want))) if res.shape == want.shape else math.inf
        ctx.check(dev <= 1e-12 * max(1.0, float(np.max(np.abs(want)))), "residuals-identity", case, f"{tag}: residuals differ from (Z_data - Z_model)/|Z_data| by {dev:.3e}")
        chi = float(np.sum(np.abs(res) ** 2))
        ctx.check(abs(r.pseudo_chisqr - chi) <= 1e-9 * max(chi, 1e-300), "pseudo-chisqr-identity", case, f"{tag}: pseudo_chisqr {r.pseudo_chisqr!r} vs sum |residuals|^2 {chi!r}")
        circ = getattr(r, "circuit", None)
        if circ is not None:
            try:
                Zc = circ.get_impedances(fr)
                ctx.check(bool(np.all(np.abs(Zc - Zm) <= 1e-12 * np.abs(Zm))), "impedances-are-circuit-impedances", case, f"{tag}: impedances differ from circuit.get_impedances(frequencies) by {np.max(np.abs(Zc - Zm) / np.abs(Zm)):.3e}")
            except Exception as e:  # noqa: BLE001
                ctx.crash("impedances-are-circuit-impedances", case, e)
    # inputs untouched
    ctx.check(json.dumps(d0.to_dict(), sort_keys=True, default=str) == snap, "data-set-unchanged", case, f"{entry} modified the data set")
    if c0 is not None:
        from pyimpspec import parse_cdc

        fresh = parse_cdc(opts["cdc"])
        if entry == "fit":
            for el in fresh.get_elements():
                if el.get_symbol() == "R":
                    el.set_values(R=50.0)
                if el.get_symbol() == "C":
                    el.set_values(C=1e-5)
        ctx.check(c0.serialize() == fresh.serialize(), "input-circuit-unchanged", case, f"{entry} modified the circuit that was passed in: {c0.to_string(6)}")
    # masked points never matter
    if spec["mask"]:
        try:
            out1, _ = run_entry(entry, opts, d1)
        except Exception as e:  # noqa: BLE001
            ctx.fail("masked-points-never-matter", case, f"{entry}: garbage on masked points makes the analysis raise {type(e).__name__}: {e}")
            ctx.record(case, True, sorted(labels))
            return
        r1 = []
        collect(out1, r1)
        ok = ctx.check(len(r1) == len(results), "masked-points-never-matter", case, f"{entry}: {len(results)} results vs {len(r1)} with different values on masked points")
        if ok:
            for k, (a, b) in enumerate(zip(results, r1)):
                fa, fb = _fields(a), _fields(b)
                bad = [key for key in fa if key not in fb or not _same(fa[key], fb[key])]
                if not ctx.check(not bad, "masked-points-never-matter", case, f"{entry} result {k}: fields {bad} change with the values of masked points"):
                    break
    ctx.record(case, bool(spec["mask"]), sorted(labels), "no masked point")


CHEAP = ["kk", "drt-tr-nnls", "drt-lm", "fit"]
MEDIUM = ["kk-auto", "kk-evaluate", "zhit", "drt-bht"]
SLOW = ["kk-exploratory", "drt-mrq-fit"]


def parts(ctx):
    return [
        Part("cheap", body, strategy=case_strategy(CHEAP), n={"quick": 480, "thorough": 12000}, budget_s={"quick": 100, "thorough": 1500}, case_timeout_s=60),
        Part("medium", body, strategy=case_strategy(MEDIUM), n={"quick": 96, "thorough": 2400}, budget_s={"quick": 150, "thorough": 1800}, case_timeout_s=180),
        Part("slow", body, strategy=case_strategy(SLOW), n={"quick": 24, "thorough": 480}, budget_s={"quick": 200, "thorough": 2400}, case_timeout_s=300),
    ]
