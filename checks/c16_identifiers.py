"""C16 — element names and identifiers are unique and used consistently (DESIGN.md section 4, C16)."""
from __future__ import annotations

import copy
import math
import re

import numpy as np
from hypothesis import strategies as st

from vlib import gen_circuits as G
from vlib import mpeval as M
from vlib.runner import Part

PROPERTY = "C16"
RULE = (
    "Hypothesis-generated circuits (<= 16 elements, repeated types, labelled/unlabelled mixes, deliberately duplicated labels "
    "in a marked class, Tlm containers with nested sub-circuits, pairwise distinct parameter values) and, on the same Circuit "
    "object, generated structural edits that keep the description code unchanged (swap two children, replace an element by a "
    "copy, swap a container's sub-circuit) followed by the same checks again. Oracle: running identifiers are a bijection onto "
    "0..N-1 over all elements incl. nested ones, per-type identifiers onto 1..k; names unique unless labels were duplicated; "
    "Circuit-level names = Connection-level names = names in a deep copy; free symbols of to_sympy() are exactly f plus "
    "<param>_<label or running id> and substituting each with that element's value reproduces get_impedances (mpmath); "
    "generate_fit_identifiers = <param>_<running id>; after fit_circuit the parameter table, both data frames and the "
    "returned circuit agree triple by triple; validate_circuit rejects exactly duplicate names; CircuiTikZ labels = names. "
    "Non-trivial: >= 2 elements of one type; distinct by SHA-1 of the case."
)
ASSUMPTIONS = [
    "labels for the symbolic clause are identifier-like (rich labels are C20's subject)",
    "a fit with max_nfev small is used only to obtain a result object; its numbers are compared with the returned circuit, not with a truth",
]
SHARDS = {"quick": 8, "thorough": 16}
FLOOR = 0.4
REQUIRED_CLASSES = {t: ["container", "duplicate-labels", "fit", "edited", ">=11-elements", "labelled"] for t in ("quick", "thorough")}

FIT_SYMS = ["R", "C", "L", "Q", "W", "R", "C", "R", "Zarc", "La"]
ALL_SYMS = FIT_SYMS + ["Tlm", "G", "Ws", "K", "Tlm"]


@st.composite
def case_strategy(draw):
    with_fit = draw(st.integers(0, 3)) == 0
    syms = FIT_SYMS if with_fit else ALL_SYMS
    distinct = set()
    ast = draw(G.st_tree(syms, max_leaves=draw(st.sampled_from([3, 6, 12, 16])), min_leaves=2, state="values", labels="ident", canonical=True, distinct=distinct))
    dup = draw(st.integers(0, 5)) == 0
    edits = draw(st.lists(st.tuples(st.sampled_from(["swap", "replace", "sub"]), st.integers(0, 50), st.integers(0, 50), st.integers(0, 50)), max_size=3))
    return {"ast": ast, "dup": dup, "fit": with_fit, "edits": [list(e) for e in edits], "f": [1234.5, 7.25, 0.031]}


def _force_values_distinct_moderate(circuit):
    """Well-conditioned, pairwise distinct values (so that a mix-up is observable and the fit starts inside limits)."""
    k = 0
    for el in G.all_elements(circuit):
        lo, hi = el.get_lower_limits(), el.get_upper_limits()
        for key, d in type(el).get_default_values().items():
            k += 1
            if hi[key] <= 1.0:
                v = 0.55 + 0.4 * (k % 37) / 37.0 + 1e-4 * k
                v = min(v, hi[key])
            else:
                v = d * (1.0 + 0.03 * k)
            v = min(max(v, lo[key]), hi[key])
            el.set_values(key, v)


def _expected_symbols(circuit):
    ids = circuit.generate_element_identifiers(running=True)
    out = {}
    for el, i in ids.items():
        for key, v in el.get_values().items():
            name = f"{key}_{el.get_label()}" if el.get_label() else f"{key}_{i}"
            out.setdefault(name, []).append(v)
    return out


def check_round(ctx, case, circuit, tag, labels, do_fit):
    from pyimpspec import fit_circuit, parse_cdc, simulate_spectrum
    from pyimpspec.analysis.fitting import generate_fit_identifiers, validate_circuit
    from pyimpspec.circuit.base import Container

    els = G.all_elements(circuit)
    N = len(els)
    top = G.top_connection(circuit)
    ok = True
    run = circuit.generate_element_identifiers(running=True)
    ok &= ctx.check(
        len(run) == N and set(map(id, run)) == set(map(id, els)) and sorted(run.values()) == list(range(N)),
        "running-identifiers-bijection", case, f"{tag}: {N} elements; identifiers {sorted(run.values())} over {len(run)} keys",
    )
    per = circuit.generate_element_identifiers(running=False)
    ok &= ctx.check(len(per) == N and set(map(id, per)) == set(map(id, els)), "per-type-identifiers-bijection", case, f"{tag}: keys differ from the circuit's elements")
    if not ok:
        return False
    by_sym = {}
    for el in els:
        by_sym.setdefault(el.get_symbol(), []).append(per[el])
    for sym, vals in by_sym.items():
        ok &= ctx.check(sorted(vals) == list(range(1, len(vals) + 1)), "per-type-identifiers-bijection", case, f"{tag}: {sym}: {sorted(vals)}")
    # names
    names = [circuit.get_element_name(e) for e in els]
    label_keys = [(e.get_symbol(), e.get_label()) for e in els if e.get_label()]
    dup_labels = len(set(label_keys)) != len(label_keys)
    if dup_labels:
        labels.add("duplicate-labels")
    ok &= ctx.check(dup_labels or len(set(names)) == N, "names-unique", case, f"{tag}: names {names}")
    for e, n in zip(els, names):
        want = f"{e.get_symbol()}_{e.get_label()}" if e.get_label() else f"{e.get_symbol()}_{per[e]}"
        ok &= ctx.check(n == want, "name-is-label-or-type-count", case, f"{tag}: name {n!r}, expected {want!r}")
    # the same name through every API level, and in a copy (position-wise)
    names_conn = [top.get_element_name(e) for e in els]
    ok &= ctx.check(names_conn == names, "names-consistent-across-apis", case, f"{tag}: Circuit {names} vs Connection {names_conn}")
    dup = copy.deepcopy(circuit)
    dup_els = G.all_elements(dup)
    ok &= ctx.check([dup.get_element_name(e) for e in dup_els] == names, "names-consistent-across-apis", case, f"{tag}: deep copy names {[dup.get_element_name(e) for e in dup_els]} vs {names}")
    # validate_circuit
    try:
        validate_circuit(circuit)
        rejected = False
    except ValueError:
        rejected = True
    ok &= ctx.check(rejected == (len(set(names)) != N), "validate-circuit-rejects-duplicates", case, f"{tag}: names {names}: rejected={rejected}")
    # fit identifiers
    fid = generate_fit_identifiers(circuit)
    good = set(map(id, fid)) == set(map(id, els)) and all(dict(fid[e].items()) == {k: f"{k}_{run[e]}" for k in e.get_values()} for e in els)
    ok &= ctx.check(good, "fit-identifiers", case, f"{tag}: generate_fit_identifiers disagrees with the running identifiers")
    # symbolic expression: variables and their meaning (only for circuits that can be simulated; a label used twice,
    # on whatever element types, is the property's "user assigned duplicate labels" exemption)
    from pyimpspec.exceptions import ImpedanceError

    any_label_twice = len({e.get_label() for e in els if e.get_label()}) != len([e for e in els if e.get_label()])
    fs = case["f"]
    try:
        with np.errstate(all="ignore"):
            Z = circuit.get_impedances(np.array(fs))
    except (ImpedanceError, NotImplementedError):
        Z = None
        labels.add("not-simulable")
    if Z is not None and not any_label_twice:
        expect = _expected_symbols(circuit)
        try:
            expr = circuit.to_sympy()
        except Exception as e:  # noqa: BLE001
            ctx.crash("sympy-variables", case, e)
            expr = None
            ok = False
        if expr is not None:
            free = {str(s) for s in expr.free_symbols}
            # a container's branch formula can drop a sub-circuit altogether (e.g. a boundary shorted by Z_A=short), so
            # with containers only "no foreign variable" is demanded; without containers every parameter must appear
            has_container = any(isinstance(e, Container) for e in els)
            sym_ok = (free - {"f"} <= set(expect)) if has_container else (free - {"f"} == set(expect))
            ok &= ctx.check(sym_ok, "sympy-variables", case, f"{tag}: free symbols {sorted(free)} ; expected f + {sorted(expect)}")
            if sym_ok:
                try:
                    ref = M.eval_expr(expr, fs, extra={k: v[0] for k, v in expect.items()})
                    worst = max(M.rel_err(complex(a), b) for a, b in zip(Z, ref))
                    ctx.observe("sympy-substitution:rel-err", worst)
                    ok &= ctx.check(worst <= 1e-7, "sympy-variable-denotes-its-element", case, f"{tag}: substituting each variable with its element's value gives rel. deviation {worst:.3e} from get_impedances")
                    labels.add("sympy-judged")
                except M.RefNotFinite:
                    pass
    # diagrams
    for running in (False, True):
        ids = run if running else per
        try:
            tex = circuit.to_circuitikz(running=running)
        except NotImplementedError:
            break
        got = sorted(re.findall(r"=\$(.*?)\$\]", tex))
        want = sorted(f"{e.get_symbol()}_{{\\rm {e.get_label() or ids[e]}}}" for e in circuit.get_elements(recursive=True))
        ok &= ctx.check(got == want, "circuitikz-labels", case, f"{tag}: running={running}: labels {got} ; expected {want}")
    # fitted-parameter tables
    if do_fit and not dup_labels:
        fs = np.logspace(4, -1, 16)
        try:
            data = simulate_spectrum(circuit, fs)
            res = fit_circuit(circuit, data, method="leastsq", weight="boukamp", max_nfev=6, num_procs=1)
        except Exception as e:  # noqa: BLE001
            from pyimpspec.exceptions import FittingError, ImpedanceError

            if isinstance(e, (FittingError, ImpedanceError)):
                labels.add("fit-refused")
                return ok
            raise
        labels.add("fit")
        rc = res.circuit
        r_els = G.all_elements(rc)
        ok &= ctx.check([rc.get_element_name(e) for e in r_els] == names, "fit-table", case, f"{tag}: result circuit names differ from the input circuit's")
        want = set()
        for e in r_els:
            n = rc.get_element_name(e)
            tab = res.parameters.get(n)
            if not ctx.check(tab is not None and set(tab) == set(e.get_values()), "fit-table", case, f"{tag}: parameters[{n!r}] = {None if tab is None else sorted(tab)}"):
                ok = False
                continue
            for p, v in e.get_values().items():
                ok &= ctx.check(tab[p].value == v and tab[p].fixed == e.is_fixed(p), "fit-table", case, f"{tag}: parameters[{n!r}][{p!r}].value = {tab[p].value!r}, but that element has {v!r}")
                want.add((n, p, v))
        r_run = rc.generate_element_identifiers(running=True)
        for running in (False, True):
            df = res.to_parameters_dataframe(running=running)
            rows = set(zip(df["Element"], df["Parameter"], df["Value"]))
            if running:
                exp = {((f"{e.get_symbol()}_{r_run[e]}" if not e.get_label() else rc.get_element_name(e)), p, v) for e in r_els for p, v in e.get_values().items()}
            else:
                exp = want
            ok &= ctx.check(rows == exp and len(df) == len(exp), "fit-dataframe", case, f"{tag}: running={running}: rows differ: {sorted(rows ^ exp, key=str)[:4]}")
    return ok


def apply_edit(circuit, edit):
    """Structural edits through the public Connection/Container API that keep the (basic) description code unchanged."""
    from pyimpspec.circuit.base import Container, Element

    kind, a, b, c = edit
    conns = circuit.get_connections(recursive=True)
    if kind == "swap":
        con = conns[a % len(conns)]
        items = list(con)
        if len(items) < 2:
            return False
        i, j = b % len(items), c % len(items)
        if i == j:
            j = (i + 1) % len(items)
        i, j = min(i, j), max(i, j)
        x, y = items[i], items[j]
        con.pop(j)
        con.pop(i)
        con.insert(i, y)
        con.insert(j, x)
        return True
    if kind == "replace":
        con = conns[a % len(conns)]
        items = list(con)
        idx = [i for i, it in enumerate(items) if isinstance(it, Element)]
        if not idx:
            return False
        i = idx[b % len(idx)]
        new = copy.deepcopy(items[i])
        con.pop(i)
        con.insert(i, new)
        return True
    conts = [e for e in G.all_elements(circuit) if isinstance(e, Container)]
    if not conts:
        return False
    t = conts[a % len(conts)]
    subs = t.get_subcircuits()
    keys = sorted(subs)
    k1, k2 = keys[b % len(keys)], keys[c % len(keys)]
    if k1 == k2:
        return False
    t.set_subcircuits(k1, subs[k2], k2, subs[k1])
    return True


def body(ctx, case):
    circuit = G.build_objects(case["ast"])
    _force_values_distinct_moderate(circuit)
    els = G.all_elements(circuit)
    labels = set()
    if case["dup"]:
        # assign one label to two elements of the same type on purpose
        by = {}
        for e in els:
            by.setdefault(e.get_symbol(), []).append(e)
        pairs = [v for v in by.values() if len(v) >= 2]
        if pairs:
            pairs[0][0].set_label("same")
            pairs[0][1].set_label("same")
    # a label that consists of digits (also when padded with blanks) lives in the namespace of the generated names
    # <symbol>_<count>: it must be refused, otherwise two elements get one name without any duplicate label
    by_sym = {}
    for e in els:
        by_sym.setdefault(e.get_symbol(), []).append(e)
    for group in by_sym.values():
        if len(group) >= 2 and not group[0].get_label():
            for text in (" 2", "2 ", "\t2\n"):
                try:
                    group[0].set_label(text)
                    ctx.check(False, "digit-label-refused", case, f"set_label({text!r}) was accepted: the element is now called {circuit.get_element_name(group[0])!r} like the second unlabelled {group[0].get_symbol()}")
                    group[0].set_label("")
                except ValueError:
                    pass
            labels.add("padded-digit-label")
            break
    syms = [e.get_symbol() for e in els]
    if any(e[4] is not None for e in G.ast_elements(case["ast"])):
        labels.add("container")
    if any(e.get_label() for e in els):
        labels.add("labelled")
    if len(els) >= 11:
        labels.add(">=11-elements")
    ok = check_round(ctx, case, circuit, "initial", labels, case["fit"])
    for n, edit in enumerate(case["edits"]):
        if not ok:
            break
        try:
            done = apply_edit(circuit, edit)
        except Exception as e:  # noqa: BLE001
            ctx.crash("edit", case, e)
            break
        if done:
            labels.add("edited")
            ok = check_round(ctx, case, circuit, f"after edit {n} {edit}", labels, case["fit"] and n == len(case["edits"]) - 1)
    nontrivial = len(syms) != len(set(syms))
    ctx.record(case, nontrivial, sorted(labels), "no repeated element type")


def parts(ctx):
    return [Part("circuits", body, strategy=case_strategy(), n={"quick": 2400, "thorough": 40000}, budget_s={"quick": 150, "thorough": 1800}, case_timeout_s=60)]
