"""C04 — parse_cdc is total: a circuit or a parsing error, never a crash (DESIGN.md section 4, C04)."""
from __future__ import annotations

import itertools
import re
import math
import os
from vlib.timeouts import TimeLimit, time_limit
import subprocess
import sys
import tempfile
import zlib

import numpy as np
from hypothesis import strategies as st

from vlib import gen_circuits as G
from vlib.runner import VERIF, Part

PROPERTY = "C04"
RULE = (
    "(a) every concatenation of <= N lexical atoms from a 31-atom alphabet (element symbols incl. multi-letter, container and "
    "unknown ones, every bracket/separator, numbers incl. malformed '1e' and '-', inf/short/open, 'R=', 'X_1=', ':a', 'F', blank): "
    "N=4 quick (~9.2e5 strings), N=5 thorough (~2.9e7), sharded by string hash so distinct counts add up; (b) Hypothesis-generated "
    "valid extended CDCs from the grammar-directed printer and ALL their prefixes, ALL single-character deletions and drawn "
    "substitutions/insertions/double mutations; (c) deep nestings up to 5000 levels; (d, thorough) an atheris coverage-guided campaign "
    "over tokenizer+parser with the same oracle. Oracle: Circuit | ParsingError | TokenizingError | ValueError(with message); accepted "
    "strings must list only Element/Connection items, serialise, simulate or be refused by an ImpedanceError, and re-parse from "
    "to_string(12) to an equivalent circuit when all values lie within their limits. Non-trivial: distinct strings that reach the "
    "parser main loop (accepted or rejected by a ParsingError)."
)
ASSUMPTIONS = [
    "termination judged by a 20 s watchdog per string (expiry = inconclusive, never a violation)",
    "NotImplementedError raised explicitly by the transmission-line element for unsupported open/short configurations counts as the library's documented refusal to simulate",
]
SHARDS = {"quick": 8, "thorough": 16}
FLOOR = 0.3

ATOMS = ["R", "C", "La", "Tlm", "Zz", "[", "]", "(", ")", "{", "}", ",", ":", "=", "/", "%", "!", "1", "-1", "2.5", "1e3", "1e", "-",
         "inf", "short", "open", "R=", "X_1=", ":a", "F", " "]


class _Timeout(Exception):
    pass


def _alarm(signum, frame):
    raise _Timeout()


def _walk_items(con, bad):
    from pyimpspec.circuit.base import Connection, Container, Element

    for item in con:
        if isinstance(item, Connection):
            _walk_items(item, bad)
        elif isinstance(item, Element):
            if isinstance(item, Container):
                for sub in item.get_subcircuits().values():
                    if sub is None:
                        continue
                    if not isinstance(sub, Connection):
                        bad.append(repr(sub))
                    else:
                        _walk_items(sub, bad)
        else:
            bad.append(repr(item))


def values_within_limits(circuit) -> bool:
    for el in G.all_elements(circuit):
        v, lo, hi = el.get_values(), el.get_lower_limits(), el.get_upper_limits()
        for k in v:
            if not (lo[k] <= v[k] <= hi[k]) or not math.isfinite(v[k]):
                return False
    return True


def judge(ctx, text: str, case, full: bool = True) -> str:
    """Returns a class label for the outcome; reports violations through ctx."""
    from pyimpspec import parse_cdc
    from pyimpspec.circuit.base import Connection
    from pyimpspec.exceptions import ImpedanceError, ParsingError, TokenizingError

    try:
        with time_limit(20.0):
            circuit = parse_cdc(text)
    except TimeLimit:
        ctx.inconclusive["parse-timeout-20s"] += 1
        return "timeout"
    except ParsingError as e:
        return "rejected:" + type(e).__name__
    except TokenizingError as e:
        return "tokenizer:" + type(e).__name__
    except ValueError as e:
        if not str(e).strip():
            ctx.fail("valueerror-without-explanation", case, f"ValueError with empty message for {text!r}")
        return "valueerror"
    except Exception as e:  # noqa: BLE001  TypeError, IndexError, AttributeError, KeyError, RecursionError, ...
        ctx.crash("escaping-exception", case, e)
        return "crash"
    if not full:
        return "accepted"
    # --- accepted: well-formed circuit
    try:
        bad: list = []
        top = circuit.get_connections(recursive=False)[0]
        _walk_items(top, bad)
        ctx.check(not bad, "accepted-well-formed", case, f"{text!r}: connection items that are neither Element nor Connection: {bad[:3]}")
        s_basic = circuit.to_string()
        s12 = circuit.to_string(12)
        elements = circuit.get_elements()
        ctx.check(isinstance(s_basic, str) and isinstance(s12, str) and isinstance(elements, list), "accepted-well-formed", case, "to_string/get_elements types")
    except RecursionError:
        ctx.inconclusive["deep-accepted-circuit-recursion"] += 1
        return "accepted"
    except Exception as e:  # noqa: BLE001
        ctx.crash("accepted-well-formed", case, e)
        return "accepted"
    try:
        within = values_within_limits(circuit)
    except Exception as e:  # noqa: BLE001
        ctx.crash("accepted-well-formed", case, e)
        return "accepted"
    from vlib.runner import innermost_is_raise_in_lib

    try:
        with np.errstate(all="ignore"):
            Z = circuit.get_impedances(np.array([1e-3, 1.0, 1e5]))
        ctx.check(bool(np.all(np.isfinite(Z))), "accepted-simulable", case, f"{text!r}: non-finite impedances returned: {Z!r}")
    except ImpedanceError:
        pass
    except NotImplementedError as e:
        if not innermost_is_raise_in_lib(e):
            ctx.crash("accepted-simulable", case, e)
    except RecursionError:
        ctx.inconclusive["deep-accepted-circuit-recursion"] += 1
    except Exception as e:  # noqa: BLE001
        # outside the limit box (e.g. an exponent of 500) an explicit refusal by the library is not a crash
        if within or not innermost_is_raise_in_lib(e):
            ctx.crash("accepted-simulable", case, e)
    if within:
        try:
            again = parse_cdc(s12)
            d = G.equiv(G.canonical_explicit(G.circuit_to_ast(again)), G.canonical_explicit(G.circuit_to_ast(circuit)), rel=2e-12)
            ctx.check(d is None, "reserialisation-accepted", case, f"{text!r} -> {s12!r} parses to a different circuit: {d}")
        except RecursionError:
            ctx.inconclusive["deep-accepted-circuit-recursion"] += 1
        except ParsingError as e:
            if "nested too deeply" in str(e):
                ctx.inconclusive["reserialisation-too-deep"] += 1
            else:
                ctx.fail("reserialisation-accepted", case, f"{text!r} is accepted with all values within limits but its serialisation {s12!r} is rejected: {type(e).__name__}: {e}", kind=type(e).__name__)
        except Exception as e:  # noqa: BLE001
            ctx.fail("reserialisation-accepted", case, f"{text!r} is accepted with all values within limits but its serialisation {s12!r} is rejected: {type(e).__name__}: {e}", kind=type(e).__name__)
    return "accepted"


def _record(ctx, case, text, outcome):
    reaches_parser = outcome == "accepted" or outcome.startswith("rejected:") or outcome == "valueerror"
    ctx.record(case, reaches_parser, [outcome], "rejected by the tokenizer", key=text if ctx.part == "atoms-exhaustive" else None)


# ---------------------------------------------------------------------------- (a) exhaustive
def atom_strings(ctx):
    N = ctx.q(4, 5)
    seen_short = set()
    for n in range(1, N + 1):
        for seq in itertools.product(ATOMS, repeat=n):
            s = "".join(seq)
            if zlib.crc32(s.encode()) % ctx.nshards != ctx.shard:
                continue
            yield s


def atom_body(ctx, s):
    if isinstance(s, dict):
        s = s["text"]
    if s in ctx.nontrivial_keys:
        return
    outcome = judge(ctx, s, {"text": s})
    # cheap bookkeeping: do not keep a million sample dicts
    ctx.evaluations += 1
    ctx.part_counts[ctx.part] += 1
    ctx.classes[outcome] += 1
    if outcome == "accepted" or outcome.startswith("rejected:") or outcome == "valueerror":
        ctx.nontrivial_keys.add(s)
    else:
        ctx.trivial["rejected by the tokenizer"] += 1
    if outcome not in ctx.samples and len(ctx.samples) < 14:
        ctx.samples[outcome] = {"part": ctx.part, "case": {"text": s}}


# ---------------------------------------------------------------------------- (b) grammar mutations
SPECIAL = "[](){}=/%,:!-. \t\nRCfFe1023456789"
_NUM = re.compile(r"-?\d+(?:\.\d*)?(?:[eE][-+]?\d+)?")
EXTREME_NUMBERS = ["0", "-0", "1e999", "-1e999", "1e-999", "1.7976931348623157e308", "5e-324", "1e309", "00012", "9" * 330, "1." + "3" * 60,
                   "1e0000000000000000001", "2", "0.5", "-3", "1E+400", "1e"]


@st.composite
def mutation_case(draw):
    syms = sorted(G.element_classes(private=True))
    ast = draw(G.st_tree(syms + ["R", "C", "Tlm"] * 3, max_leaves=draw(st.sampled_from([1, 2, 4, 6])), state="full", labels="mixed", short_mantissa=draw(st.sampled_from([None, 6]))))
    text, used = draw(G.st_spelling(ast, num_styles=("repr", "12E", "int", "17E")))
    n = len(text)
    edits = draw(
        st.lists(
            st.tuples(st.sampled_from(["sub", "ins", "swap", "dup"]), st.integers(0, max(n - 1, 0)), st.sampled_from(SPECIAL), st.integers(0, max(n - 1, 0)), st.sampled_from(SPECIAL)),
            max_size=40,
        )
    )
    return {"base": text, "edits": [list(e) for e in edits]}


def _apply(text, kind, i, ch):
    if kind == "sub":
        return text[:i] + ch + text[i + 1:]
    if kind == "ins":
        return text[:i] + ch + text[i:]
    if kind == "dup":
        return text[:i] + text[i:i + 3] + text[i:]
    return text[:i] + text[i + 1:i + 2] + text[i:i + 1] + text[i + 2:]


def mutation_body(ctx, case):
    if "text" in case:
        out = judge(ctx, case["text"], case)
        _record(ctx, case, case["text"], out)
        return
    base = case["base"]
    out = judge(ctx, base, {"text": base})
    ctx.check(out == "accepted", "valid-code-accepted", {"text": base}, f"grammar-derived valid code rejected: {base!r}: {out}")
    _record(ctx, {"text": base}, base, out)
    cap = ctx.q(400, 1500)
    muts = []
    step = max(1, len(base) // cap)
    for i in range(0, len(base), step):
        muts.append(base[:i])  # truncation at every prefix
        muts.append(base[:i] + base[i + 1:])  # single deletion
    for kind, i, ch, j, ch2 in case["edits"]:
        if len(base) == 0:
            break
        m = _apply(base, kind, i % len(base), ch)
        muts.append(m)
        muts.append(_apply(m, "sub", j % max(len(m), 1), ch2))  # double mutation
    # every number literal of the code (header version, values, limits, percentages) replaced by extreme literals
    nums = list(_NUM.finditer(base))
    stride = max(1, len(nums) // ctx.q(12, 40))
    for k, mt in enumerate(nums):
        if k % stride:
            continue
        for lit in EXTREME_NUMBERS:
            muts.append(base[: mt.start()] + lit + base[mt.end():])
    seen = set()
    for m in muts:
        if m in seen:
            continue
        seen.add(m)
        out = judge(ctx, m, {"text": m})
        _record(ctx, {"text": m}, m, out)


# ---------------------------------------------------------------------------- (c) deep nesting
def deep_cases(ctx):
    for n in (1, 2, 10, 50, 200, 400, 700, 1000, 2000, 5000):
        yield {"text": "[" * n + "R" + "]" * n}
        yield {"text": "(" * n + "RC" + ")" * n}
        yield {"text": "([" * n + "RC" + "]C)" * n}
        yield {"text": "Tlm{X_1=" * n + "R" + "}" * n}
        yield {"text": "Tlm{X_1=[" * n + "R" + "]}" * n}
        yield {"text": "[" * n}
        yield {"text": "R{" * n}
        yield {"text": "R" * n}
        yield {"text": "R{:a" + "{" * n + "}" * n + "}"}


def deep_body(ctx, case):
    out = judge(ctx, case["text"], case)
    _record(ctx, case, case["text"], out)


# ---------------------------------------------------------------------------- (d) atheris (thorough)
def fuzz_cases(ctx):
    if ctx.tier != "thorough":
        return
    deps = os.path.join(VERIF, ".deps")
    env = dict(os.environ)
    env["PYTHONPATH"] = deps + os.pathsep + env.get("PYTHONPATH", "")
    probe = subprocess.run([sys.executable, "-c", "import atheris"], env=env, capture_output=True)
    if probe.returncode != 0:
        ctx.notes.append("atheris not importable: coverage-guided campaign skipped")
        return
    for corpus_kind in ("empty", "seeded"):
        with tempfile.TemporaryDirectory(prefix="verif-c04-fuzz-") as tmp:
            corpus = os.path.join(tmp, "corpus")
            crashes = os.path.join(tmp, "crashes")
            os.makedirs(corpus)
            os.makedirs(crashes)
            if corpus_kind == "seeded":
                sdir = os.path.join(VERIF, "corpus", "c04")
                for fn in sorted(os.listdir(sdir)):
                    with open(os.path.join(sdir, fn), "rb") as fh, open(os.path.join(corpus, fn), "wb") as out:
                        out.write(fh.read())
            runs = int(os.environ.get("VERIF_C04_FUZZ_RUNS", "400000"))
            cmd = [sys.executable, os.path.join(VERIF, "checks", "c04_fuzz_target.py"), corpus, f"-runs={runs}", f"-seed={ctx.seed + 1}",
                   "-max_len=96", f"-artifact_prefix={crashes}/", "-timeout=25", "-print_final_stats=1"]
            r = subprocess.run(cmd, env=env, capture_output=True, text=True, cwd=VERIF)
            executed = 0
            for line in r.stderr.splitlines():
                if line.startswith("stat::number_of_executed_units:"):
                    executed = int(line.split(":")[-1])
            ctx.notes.append(f"atheris corpus={corpus_kind} runs={executed} exit={r.returncode} corpus_files={len(os.listdir(corpus))}")
            ctx.classes[f"fuzz-executions:{corpus_kind}"] += executed
            for fn in sorted(os.listdir(crashes)):
                data = open(os.path.join(crashes, fn), "rb").read()
                yield {"text": data.decode("latin-1"), "origin": f"atheris:{corpus_kind}:{fn[:12]}"}
            # the evolved corpus is re-judged in-process with the full oracle
            for fn in sorted(os.listdir(corpus))[:3000]:
                data = open(os.path.join(corpus, fn), "rb").read()
                yield {"text": data.decode("latin-1")}


def fuzz_body(ctx, case):
    case = {"text": case["text"]}
    out = judge(ctx, case["text"], case)
    _record(ctx, case, case["text"], out)


# ---------------------------------------------------------------------------- minimiser (char-level ddmin)
def minimize(ctx, part, failure, hits):
    case = failure["case"]
    if not (isinstance(case, dict) and "text" in case):
        return failure
    text = case["text"]
    if not hits({"text": text}):
        return failure
    n = 2
    while len(text) >= 2:
        chunk = max(1, len(text) // n)
        reduced = False
        for i in range(0, len(text), chunk):
            cand = text[:i] + text[i + chunk:]
            if cand != text and hits({"text": cand}):
                text = cand
                n = max(n - 1, 2)
                reduced = True
                break
        if not reduced:
            if chunk == 1:
                break
            n = min(n * 2, len(text))
    out = dict(failure)
    out["case"] = {"text": text}
    out["size"] = len(text)
    return out


def parts(ctx):
    return [
        Part("deep-nesting", deep_body, items=deep_cases, exhaustive=False, shard=False),
        Part("atoms-exhaustive", atom_body, items=atom_strings, exhaustive=True, self_sharded=True, budget_s={"quick": 200.0, "thorough": 3000.0}),
        Part("grammar-mutations", mutation_body, strategy=mutation_case(), n={"quick": 240, "thorough": 6000}),
        Part("atheris", fuzz_body, items=fuzz_cases, shard=False, budget_s={"quick": 1.0, "thorough": 3000.0}),
    ]
