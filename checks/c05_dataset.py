"""C05 — a DataSet keeps frequency, impedance and mask of each point together.

Model-based (stateful) testing: a generated history of operations is applied to a real
DataSet and to a list-of-triples reference model; after every step every getter is compared
with the model's projection. Histories are plain JSON so they shrink and replay as one value.
"""
from __future__ import annotations

import copy
import json

import numpy as np
from hypothesis import strategies as st

from vlib.runner import Part

PROPERTY = "C05"
RULE = (
    "Hypothesis-generated operation histories (construct asc|desc with partial/out-of-range masks, set_mask, "
    "low_pass, high_pass, subtract_impedances, to_dict->json->from_dict with optional keys dropped and the same "
    "dict imported twice, duplicate, deepcopy, average) on spectra of 1..12 points, compared after every step with a "
    "list-of-(f,Z,masked) model through every getter and masked in {None,False,True}; plus an exhaustive "
    "enumeration of all mask subsets for n<=5 in both orders. Non-trivial: ascending construction with a "
    "non-empty mask, or >=3 mutating steps incl. a mask change; distinct by SHA-1 of the history."
)
ASSUMPTIONS = [
    "frequencies supplied strictly monotone (ascending or descending), unique, positive; impedances finite",
    "exact comparison everywhere except DataSet.average (rel 1e-12)",
]
SHARDS = {"quick": 8, "thorough": 16}
FLOOR = 0.3


# ---------------------------------------------------------------------------- strategies
finite = st.floats(min_value=-1e12, max_value=1e12, allow_nan=False, allow_infinity=False, width=64)
zpair = st.tuples(finite, finite).map(list)


@st.composite
def mask_dict(draw, n):
    keys = draw(st.lists(st.integers(min_value=-2, max_value=n + 1), max_size=n + 2, unique=True))
    return {str(k): draw(st.booleans()) for k in keys}


@st.composite
def history(draw):
    n = draw(st.integers(min_value=1, max_value=12))
    logf = draw(
        st.lists(st.floats(min_value=-6, max_value=9, allow_nan=False), min_size=n, max_size=n, unique=True)
    )
    f_desc = sorted({10.0**x for x in logf}, reverse=True)
    n = len(f_desc)
    z = draw(st.lists(zpair, min_size=n, max_size=n))
    ops = [
        {
            "op": "construct",
            "order": draw(st.sampled_from(["asc", "desc"])),
            "f_desc": f_desc,
            "z_desc": z,
            "mask": draw(st.one_of(st.none(), mask_dict(n))),
        }
    ]
    idx = st.integers(min_value=0, max_value=n - 1)
    cut = st.one_of(
        st.builds(lambda i, rel: {"i": i, "rel": rel}, idx, st.sampled_from([-1, 0, 1])),
        st.builds(lambda v: {"abs": v}, st.sampled_from([0.0, 1e-9, 1e12, -1.0])),
    )
    op = st.one_of(
        st.builds(lambda m: {"op": "set_mask", "mask": m}, mask_dict(n)),
        st.builds(lambda c: {"op": "low_pass", "cut": c}, cut),
        st.builds(lambda c: {"op": "high_pass", "cut": c}, cut),
        st.builds(lambda v: {"op": "subtract", "vals": [v]}, zpair),
        st.builds(lambda v: {"op": "subtract", "vals": v}, st.lists(zpair, min_size=n, max_size=n)),
        st.builds(
            lambda drop, twice: {"op": "json", "drop": drop, "twice": twice},
            st.lists(st.sampled_from(["mask", "path", "label", "uuid", "version"]), unique=True),
            st.booleans(),
        ),
        st.builds(lambda lab: {"op": "duplicate", "label": lab}, st.one_of(st.none(), st.just("copy"))),
        st.just({"op": "deepcopy"}),
        st.builds(
            lambda others: {"op": "average", "others": others},
            st.lists(st.lists(zpair, min_size=n, max_size=n), min_size=0, max_size=2),
        ),
    )
    ops += draw(st.lists(op, min_size=0, max_size=12))
    return ops


# ---------------------------------------------------------------------------- model
class Model:
    def __init__(self, f_desc, z_desc, masked):
        self.f = list(f_desc)
        self.z = [complex(*p) if isinstance(p, (list, tuple)) else complex(p) for p in z_desc]
        self.m = list(masked)

    def view(self, masked):
        idx = [i for i in range(len(self.f)) if masked is None or self.m[i] == masked]
        return [self.f[i] for i in idx], [self.z[i] for i in idx]


def _cutoff(model, c):
    if "abs" in c:
        return float(c["abs"])
    f = model.f[c["i"] % len(model.f)]
    return float(np.nextafter(f, np.inf if c["rel"] > 0 else -np.inf)) if c["rel"] else f


def _intmask(m):
    return None if m is None else {int(k): bool(v) for k, v in m.items()}


def compare(ctx, case, ds, model, step):
    ok = True
    for masked in (None, False, True):
        mf, mz = model.view(masked)
        mf = np.array(mf, dtype=float)
        mz = np.array(mz, dtype=complex)
        tag = f"step {step} masked={masked}"
        f = ds.get_frequencies(masked=masked)
        Z = ds.get_impedances(masked=masked)
        ok &= ctx.check(np.array_equal(f, mf), "getters-equal-model", case, f"{tag}: frequencies {f!r} != model {mf!r}")
        ok &= ctx.check(np.array_equal(Z, mz), "getters-equal-model", case, f"{tag}: impedances {Z!r} != model {mz!r}")
        ok &= ctx.check(ds.get_num_points(masked=masked) == len(mf), "getters-equal-model", case, f"{tag}: num_points")
        if not ok:
            return False
        # derived quantities: numpy may take a different SIMD path on a flipped view, so 1e-14 relative, not bit equality
        close = lambda a, b: np.shape(a) == np.shape(b) and bool(np.allclose(a, b, rtol=1e-14, atol=1e-300))
        ok &= ctx.check(close(ds.get_magnitudes(masked=masked), np.abs(mz)), "derived-getters", case, f"{tag}: magnitudes")
        ok &= ctx.check(close(ds.get_phases(masked=masked), np.angle(mz, deg=True)), "derived-getters", case, f"{tag}: phases")
        re, im = ds.get_nyquist_data(masked=masked)
        ok &= ctx.check(np.array_equal(re, mz.real) and np.array_equal(im, -mz.imag), "derived-getters", case, f"{tag}: nyquist")
        bf, bm, bp = ds.get_bode_data(masked=masked)
        ok &= ctx.check(
            np.array_equal(bf, mf) and close(bm, np.abs(mz)) and close(bp, -np.angle(mz, deg=True)),
            "derived-getters", case, f"{tag}: bode",
        )
    full = ds.get_frequencies(masked=None)
    ok &= ctx.check(bool(np.all(np.diff(full) < 0)) if len(full) > 1 else True, "descending-order", case, f"step {step}: {full!r}")
    # partition: unmasked ⊎ masked = full (as multisets of (f, Z) pairs)
    pairs = lambda m: sorted(zip(ds.get_frequencies(masked=m).tolist(), [(c.real, c.imag) for c in ds.get_impedances(masked=m).tolist()]))
    ok &= ctx.check(sorted(pairs(False) + pairs(True)) == pairs(None), "partition", case, f"step {step}")
    mask = ds.get_mask()
    ok &= ctx.check(
        mask == {i: model.m[i] for i in range(len(model.f))} and all(type(v) is bool or isinstance(v, (bool, np.bool_)) for v in mask.values()),
        "mask-equal-model", case, f"step {step}: get_mask {mask} != model {model.m}",
    )
    d = ds.to_dict()
    ok &= ctx.check(
        d["frequencies"] == model.f
        and d["real_impedances"] == [c.real for c in model.z]
        and d["imaginary_impedances"] == [c.imag for c in model.z]
        and {int(k): v for k, v in d["mask"].items()} == {i: model.m[i] for i in range(len(model.f))},
        "to_dict-equal-model", case, f"step {step}",
    )
    return ok


def run_history(ctx, case):
    from pyimpspec import DataSet

    ops = case
    ds = None
    model = None
    mutating = 0
    mask_changes = 0
    asc_masked = False
    labels = set()
    holds = []
    for step, op in enumerate(ops):
        kind = op["op"]
        labels.add("op:" + kind)
        if kind == "construct":
            f = list(op["f_desc"])
            z = [complex(*p) for p in op["z_desc"]]
            n = len(f)
            mask = _intmask(op["mask"])
            # mask indices refer to positions in the order *supplied* by the caller
            if op["order"] == "asc":
                f_in, z_in = f[::-1], z[::-1]
                masked = [bool(mask.get(n - 1 - i, False)) if mask else False for i in range(n)]
            else:
                f_in, z_in = f, z
                masked = [bool(mask.get(i, False)) if mask else False for i in range(n)]
            model = Model(f, z, masked)
            arg = copy.deepcopy(mask)
            ds = DataSet(np.array(f_in, dtype=float), np.array(z_in, dtype=complex), mask=arg, label="a")
            if mask is not None:
                ctx.check(arg == mask, "caller-mask-unaltered", case, f"construct: caller's mask {mask} became {arg}")
            if op["order"] == "asc" and mask and any(mask.get(i, False) for i in range(n)) and n > 1:
                asc_masked = True
                labels.add("asc+mask")
            # direct statement of the asc/desc clause: the mirrored mask on descending data omits the same points
            if mask is not None:
                mirror = {n - 1 - k: v for k, v in mask.items()} if op["order"] == "asc" else dict(mask)
                twin = DataSet(np.array(f, dtype=float), np.array(z, dtype=complex), mask=mirror)
                ctx.check(
                    np.array_equal(twin.get_frequencies(masked=True), ds.get_frequencies(masked=True)),
                    "asc-desc-same-points", case,
                    f"asc-built omits {ds.get_frequencies(masked=True)!r}, desc-built omits {twin.get_frequencies(masked=True)!r}",
                )
        elif kind == "set_mask":
            mask = _intmask(op["mask"])
            arg = copy.deepcopy(mask)
            ds.set_mask(arg)
            ctx.check(arg == mask, "caller-mask-unaltered", case, f"set_mask: caller's mask {mask} became {arg}")
            if len(mask) == 0:
                model.m = [False] * len(model.f)
            else:
                for k, v in mask.items():
                    if 0 <= k < len(model.f):
                        model.m[k] = v
            mutating += 1
            mask_changes += 1
        elif kind in ("low_pass", "high_pass"):
            c = _cutoff(model, op["cut"])
            getattr(ds, kind)(c)
            for i, fv in enumerate(model.f):
                if (kind == "low_pass" and fv > c) or (kind == "high_pass" and fv < c):
                    model.m[i] = True
            mutating += 1
            mask_changes += 1
        elif kind == "subtract":
            vals = [complex(*p) for p in op["vals"]]
            if len(vals) not in (1, len(model.f)):
                vals = vals[:1]
            ds.subtract_impedances(np.array(vals, dtype=complex))
            model.z = [a - (vals[0] if len(vals) == 1 else vals[i]) for i, a in enumerate(model.z)]
            mutating += 1
        elif kind == "json":
            d = json.loads(json.dumps(ds.to_dict()))
            for k in op["drop"]:
                d.pop(k, None)
            if "mask" in op["drop"]:
                model.m = [False] * len(model.f)
            try:
                new = DataSet.from_dict(d)
                if op["twice"]:
                    new2 = DataSet.from_dict(d)
                    ctx.check(
                        np.array_equal(new2.get_frequencies(masked=None), new.get_frequencies(masked=None))
                        and np.array_equal(new2.get_impedances(masked=None), new.get_impedances(masked=None))
                        and new2.get_mask() == new.get_mask(),
                        "import-twice", case, "second import of the same dict differs",
                    )
            except Exception as e:  # noqa: BLE001
                ctx.crash("import-export", case, e)
                ctx.record(case, False, labels, "aborted")
                return
            if "uuid" not in op["drop"]:
                ctx.check(new.uuid == ds.uuid, "import-export", case, "uuid not preserved")
            if "label" not in op["drop"]:
                ctx.check(new.get_label() == ds.get_label(), "import-export", case, "label not preserved")
            ds = new
            mutating += 1
        elif kind == "duplicate":
            old = ds
            ds = DataSet.duplicate(old, label=op["label"])
            ctx.check(ds.uuid != old.uuid, "duplicate", case, "duplicate kept the uuid")
            mutating += 1
        elif kind == "deepcopy":
            old = ds
            ds = copy.deepcopy(old)
            # independence: mutating the original must not touch the copy
            old.set_mask({0: not old.get_mask()[0]})
            old.subtract_impedances(np.array([1.0 + 1.0j]))
        elif kind == "average":
            others = []
            for zs in op["others"]:
                others.append(DataSet(np.array(model.f), np.array([complex(*p) for p in zs], dtype=complex)))
            sets = [ds] + others
            snapshot = json.dumps(ds.to_dict(), sort_keys=True)
            avg = DataSet.average(sets)
            ctx.check(json.dumps(ds.to_dict(), sort_keys=True) == snapshot, "average", case, "average modified its input")
            allz = [model.z] + [[complex(*p) for p in zs] for zs in op["others"]]
            ref = np.array([sum(col) / len(allz) for col in zip(*allz)], dtype=complex)
            got = avg.get_impedances(masked=None)
            scale = max(float(np.max(np.abs(np.array(allz)))), 1e-300)
            ctx.check(
                np.array_equal(avg.get_frequencies(masked=None), np.array(model.f)) and bool(np.all(np.abs(got - ref) <= 1e-12 * scale)),
                "average", case, f"average {got!r} != {ref!r}",
            )
            ctx.check(avg.get_num_points(masked=True) == 0, "average", case, "average result has masked points")
        else:
            raise AssertionError(kind)
        if not compare(ctx, case, ds, model, step):
            break
        # "a dictionary export can be imported again any number of times": an export kept by the caller is a snapshot, so
        # importing it after further operations on the data set must still give the state at export time
        for h_step, h, snap in holds:
            if not ctx.check(json.dumps(h, sort_keys=True, default=str) == snap, "export-is-a-snapshot", case,
                             f"the dictionary exported after step {h_step} changed when step {step} ({kind}) was applied to the data set: importing it now gives another data set"):
                holds = []
                break
        h = ds.to_dict()
        holds = (holds + [(step, h, json.dumps(h, sort_keys=True, default=str))])[-3:]
        if len(holds) > 1 and kind in ("set_mask", "low_pass", "high_pass", "subtract"):
            labels.add("export-held-across-a-change")
    nontrivial = asc_masked or (mutating >= 3 and mask_changes >= 1)
    if len(model.f) == 1:
        labels.add("single-point")
    ctx.record(case, nontrivial, sorted(labels), "short history without ascending masked construction")


def enum_masks(ctx):
    """Every mask subset for n = 1..N in both supplied orders (exhaustive)."""
    N = ctx.q(5, 8)
    for n in range(1, N + 1):
        f = [10.0 ** (n - i) for i in range(n)]
        z = [[float(i + 1), -float(i + 1) / 2] for i in range(n)]
        for bits in range(1 << n):
            mask = {str(i): True for i in range(n) if bits >> i & 1}
            for order in ("asc", "desc"):
                yield [
                    {"op": "construct", "order": order, "f_desc": f, "z_desc": z, "mask": mask},
                    {"op": "json", "drop": [], "twice": True},
                    {"op": "low_pass", "cut": {"i": n // 2, "rel": 0}},
                ]


def parts(ctx):
    return [
        Part("masks-exhaustive", run_history, items=enum_masks, exhaustive=True),
        Part("histories", run_history, strategy=history(), n={"quick": 6000, "thorough": 120000}),
    ]
