"""atheris target for C04 (thorough tier): bytes -> ASCII text -> the exception-taxonomy oracle.

Run by checks/c04_parse_total.py as a subprocess; a finding makes libFuzzer write the input to
-artifact_prefix and exit non-zero; the parent re-judges every artifact with the full oracle.
"""
import sys

import atheris

with atheris.instrument_imports(include=["pyimpspec.circuit.tokenizer", "pyimpspec.circuit.parser"]):
    import pyimpspec.circuit.tokenizer  # noqa: F401
    import pyimpspec.circuit.parser  # noqa: F401

from pyimpspec import parse_cdc  # noqa: E402
from pyimpspec.exceptions import ParsingError, TokenizingError  # noqa: E402


def one_input(data: bytes):
    text = data.decode("latin-1")
    try:
        circuit = parse_cdc(text)
    except (ParsingError, TokenizingError, ValueError):
        return
    # any other exception propagates -> libFuzzer records the input
    s = circuit.to_string(12)
    circuit.get_elements()
    assert isinstance(s, str)


if __name__ == "__main__":
    atheris.Setup(sys.argv, one_input)
    atheris.Fuzz()
