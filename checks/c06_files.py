"""C06 — writing a spectrum to a supported file layout and parsing it returns it (DESIGN.md section 4, C06).

Round trip with our own emitters: the generated numbers are the oracle. Delimited tables are written in every
documented convention; the simple instrument text layouts are written by minimal writers modelled line by line on
the repository's sample files.
"""
from __future__ import annotations

import itertools
import math
import os
import tempfile

import numpy as np
from hypothesis import strategies as st

from vlib.runner import Part

PROPERTY = "C06"
RULE = (
    "Hypothesis-generated spectra (1..40 points per sweep, |Z| log-uniform over 12 decades, both signs of Re and Im, 1..3 "
    "consecutive sweeps whose boundaries reverse the frequency trend) written (a) as delimited tables over the cross product "
    "{frequency alias} x {real/imaginary or modulus/phase alias} x {letter case} x {'-' or unicode-minus marker on Re/Im/phase} "
    "x {separator , TAB ; space} x {decimal . ,} x {ascending|descending rows} x {unit suffix} x {unrelated extra columns} x "
    "{.csv .txt no extension} - all alias pairs x separators x decimal marks x cases enumerated exhaustively on fixed spectra, "
    "the rest drawn - and (b) in the .mpt .i2b .P00 .dfr .dta .z layouts; parse_data must return one DataSet per sweep with "
    "the written frequencies and impedances (documented sign of Im). The text printed by the CLI 'parse' command (csv) is "
    "written to a file and parsed again. Non-trivial: >= 2 points and a convention different from the repository's sample "
    "files (f, Z', Z'' comma separated); distinct by SHA-1 of the case."
)
ASSUMPTIONS = [
    "header text never contains the separator; space- and semicolon-separated files use space-free headers (the documented detection contract)",
    "consecutive sweeps are distinguishable only when the frequency trend reverses at the boundary, so sweeps are constructed that way; single-point sweeps only as single-sweep files",
    "files without an extension are generated only for comma-separated tables (format guessing by brute force is heuristic; the repository's extension-less samples are comma-separated)",
    "column order is frequency, real|modulus, imaginary|phase (extra unrelated columns anywhere); column permutations are not part of the documented conventions",
    "numbers written with repr / %.17e: layouts read through pandas (tables, .z, CLI output) compared at rel 1e-12 (pandas' default float parser is not round-trip exact), layouts read with float() (.mpt .i2b .P00 .dfr .dta) at rel 1e-15",
]
SHARDS = {"quick": 8, "thorough": 16}
FLOOR = 0.5

F_ALIASES = ["frequency", "freq", "f"]
RE_ALIASES = ["z'", "z_re", "zre", "z re", "real", "re"]
IM_ALIASES = ['z"', "z''", "z_im", "zim", "z im", "imaginary", "imag", "im"]
MAG_ALIASES = ["|z|", "z", "magnitude", "modulus", "mag", "mod"]
PHASE_ALIASES = ["phase", "phz", "phi"]
SEPS = [",", "\t", ";", " "]
CASES = ["lower", "upper", "title", "doc"]
MINUS = ["", "-", "−"]
SUFFIXES = ["", " (ohm)", "/Ohm", "(Z)", " [a.u.]"]
EXTRA = ["time/s", "bias", "err", "pt", "#", "gd", "notes"]
INSTRUMENTS = ["mpt", "i2b", "P00", "dfr", "dta", "z"]
REQUIRED_CLASSES = {t: ["layout:" + i for i in INSTRUMENTS] + ["polar", "decimal-comma", "sweeps:3", "points:1", "neg-marker", "cli-roundtrip", "cli-output-to-files", "extra-columns"] for t in ("quick", "thorough")}


# ---------------------------------------------------------------------------- strategies
@st.composite
def st_sweeps(draw, max_sweeps=3, allow_single=True):
    k = draw(st.integers(1, max_sweeps))
    mag = st.floats(-6, 6, allow_nan=False).map(lambda e: 10.0**e)
    sign = st.sampled_from([1.0, -1.0])
    sweeps = []
    prev = None
    for s in range(k):
        n = draw(st.integers(1 if (k == 1 and allow_single) else 2, 40 if draw(st.integers(0, 3)) == 0 else 8))
        logs = draw(st.lists(st.floats(-4, 7, allow_nan=False), min_size=n, max_size=n))
        fs = sorted({10.0 ** round(x, 6) for x in logs}, reverse=True)
        if len(fs) < (1 if k == 1 else 2):
            fs = [1000.0, 100.0]
        if prev is not None and not (fs[0] > prev[-1] and fs[-1] < prev[0]):
            # consecutive sweeps are only distinguishable when the trend reverses at the boundary in either row order,
            # i.e. when their frequency ranges overlap: otherwise repeat the previous grid (the usual real-world case)
            fs = list(prev)
        prev = fs
        pts = [[f, draw(sign) * draw(mag), draw(sign) * draw(mag)] for f in fs]
        sweeps.append(pts)
    return sweeps


@st.composite
def table_conv(draw):
    polar = draw(st.integers(0, 2)) == 0
    sep = draw(st.sampled_from(SEPS))
    conv = {
        "f": draw(st.sampled_from(F_ALIASES)),
        "polar": polar,
        "a": draw(st.sampled_from(MAG_ALIASES if polar else RE_ALIASES)),
        "b": draw(st.sampled_from(PHASE_ALIASES if polar else IM_ALIASES)),
        "case": draw(st.sampled_from(CASES)),
        "neg_a": "" if polar else draw(st.sampled_from(MINUS + [""] * 2)),
        "neg_b": draw(st.sampled_from(MINUS)),
        "sep": sep,
        "decimal": draw(st.sampled_from([".", ","])) if sep != "," else ".",
        "order": draw(st.sampled_from(["desc", "asc"])),
        "suffix": draw(st.sampled_from(SUFFIXES)),
        "extra": draw(st.lists(st.tuples(st.sampled_from(EXTRA), st.integers(0, 3)), max_size=2, unique_by=lambda t: t[0])),
        # without an extension the library has to guess the format by trying every parser; the repository's samples
        # (and hence the documented convention) cover that only for comma-separated tables
        "ext": draw(st.sampled_from([".csv", ".csv", ".txt", ""] if sep == "," else [".csv", ".csv", ".txt"])),
        "fmt": draw(st.sampled_from(["repr", "17e"])),
    }
    return conv


@st.composite
def table_case(draw):
    return {"layout": "table", "sweeps": draw(st_sweeps()), "conv": draw(table_conv())}


@st.composite
def instrument_case(draw):
    layout = draw(st.sampled_from(INSTRUMENTS))
    sweeps = draw(st_sweeps(max_sweeps=3))  # every instrument layout may hold several consecutive sweeps
    return {"layout": layout, "sweeps": sweeps, "conv": {"order": draw(st.sampled_from(["desc", "asc"])), "decimal": draw(st.sampled_from([".", ","])) if layout == "dta" else ".", "fmt": draw(st.sampled_from(["repr", "17e"]))}}


@st.composite
def cli_case(draw):
    return {"layout": "cli", "sweeps": draw(st_sweeps(max_sweeps=3)), "conv": {"order": draw(st.sampled_from(["desc", "asc"])), "fmt": "repr", "sep_out": draw(st.sampled_from([",", "\t"])), "to_files": draw(st.booleans())}}


def enum_tables(ctx):
    """Every (real alias, imaginary alias) and (modulus alias, phase alias) pair x separator x decimal mark x case x
    frequency alias, on two fixed spectra (exhaustive over the documented alias table)."""
    fixed = [[[1000.0, 12.5, -3.25], [100.0, 20.0, -7.5], [10.0, 31.0, 1.25], [1.0, -2.0, 0.5]]]
    two = [fixed[0], [[500.0, 1.5, 2.5], [50.0, -1.0, 3.0]]]
    i = 0
    for polar in (False, True):
        for a, b in itertools.product(MAG_ALIASES if polar else RE_ALIASES, PHASE_ALIASES if polar else IM_ALIASES):
            for sep in SEPS:
                for dec in (".", ","):
                    if sep == "," and dec == ",":
                        continue
                    for case in CASES:
                        i += 1
                        yield {"layout": "table", "sweeps": two if i % 3 == 0 else fixed, "conv": {
                            "f": F_ALIASES[i % 3], "polar": polar, "a": a, "b": b, "case": case, "neg_a": "" if polar else MINUS[(i // 2) % 3], "neg_b": MINUS[i % 3],
                            "sep": sep, "decimal": dec, "order": "desc" if i % 2 else "asc", "suffix": "", "extra": [], "ext": ".csv", "fmt": "repr"}}


# ---------------------------------------------------------------------------- writers
def _num(x, conv):
    s = repr(float(x)) if conv.get("fmt", "repr") == "repr" else "%.17e" % x
    return s.replace(".", ",") if conv.get("decimal", ".") == "," else s


def _case(s, how):
    return {"lower": s.lower(), "upper": s.upper(), "title": s.title(), "doc": s}[how]


def _rows(sweeps, order):
    out = []
    for sw in sweeps:
        out.extend(sw if order == "desc" else sw[::-1])
    return out


def write_table(case, path):
    conv = case["conv"]
    sep = conv["sep"]
    space_free = sep in (" ", ";")
    suffix = conv["suffix"]
    if space_free:
        suffix = suffix.replace(" ", "")

    def head(alias, neg=""):
        h = neg + _case(alias, conv["case"]) + suffix
        return h

    ok_alias = lambda a: not (space_free and " " in a)
    if not (ok_alias(conv["a"]) and ok_alias(conv["b"])):
        return None  # the documented contract: space/semicolon separated files use space-free headers
    cols = [head(conv["f"]), head(conv["a"], conv["neg_a"]), head(conv["b"], conv["neg_b"])]
    extra = [(n, p) for n, p in conv["extra"] if sep not in n]
    data = []
    for f, re, im in _rows(case["sweeps"], conv["order"]):
        if conv["polar"]:
            z = complex(re, im)
            a, b = abs(z), math.degrees(math.atan2(im, re))
        else:
            a, b = re, im
        if conv["neg_a"]:
            a = -a
        if conv["neg_b"]:
            b = -b
        data.append([_num(f, conv), _num(a, conv), _num(b, conv)])
    for name, pos in extra:
        p = min(pos, len(cols))
        cols.insert(p, name)
        for k, row in enumerate(data):
            row.insert(p, _num(float(k) * 0.5, conv))
    if any(sep in c for c in cols):
        return None
    text = sep.join(cols) + "\n" + "\n".join(sep.join(r) for r in data) + "\n"
    with open(path, "w", encoding="utf-8") as fh:
        fh.write(text)
    return text


def write_instrument(case, path):
    layout, conv = case["layout"], case["conv"]
    rows = _rows(case["sweeps"], conv["order"])
    n = lambda x: _num(x, conv)
    L = []
    if layout == "mpt":
        L += ["EC-Lab ASCII FILE", "Nb header lines : 7", "", "Potentio Electrochemical Impedance Spectroscopy", "", "Run on channel : 1", ""]
        L.append("freq/Hz\tRe(Z)/Ohm\t-Im(Z)/Ohm\t|Z|/Ohm\tPhase(Z)/deg\ttime/s")
        for k, (f, re, im) in enumerate(rows):
            L.append("\t".join([n(f), n(re), n(-im), n(abs(complex(re, im))), n(math.degrees(math.atan2(im, re))), n(k * 1.5)]))
    elif layout == "i2b":
        L += ["Elchemea Analytical", "Mon Jan 01 2024", "0.0 0.0", "sample", "x"]
        for f, re, im in rows:
            L.append(" ".join([n(f), n(re), n(im)]))
    elif layout == "P00":
        L += ["Procedure : generated", "01.01.2024 00:00:00 - 01.01.2024 00:10:00", "Description", "t = 1.0 s"]
        L.append(" f/Hz       \t Z'/Ohm     \t -Z''/Ohm   \t time/s    \t Edc/V     \t Idc/A     \t")
        L.append(f" {len(rows)} ")
        for f, re, im in rows:
            L.append(" " + "\t ".join([n(f), n(re), n(-im), n(59.3), n(0.3), n(1.8e-7)]) + "\t")
    elif layout == "dfr":
        L += ["VERSION8.0", str(len(rows)), "0"]
        for f, re, im in rows:
            L += [n(f), n(re), n(-im), n(0.1), n(1e-6), n(12.0), "0", "0", "0"]
    elif layout == "dta":
        L += ["EXPLAIN", "TAG\tEISPOT", "TITLE\tLABEL\tgenerated\tTest Identifier", "ZCURVE\tTABLE"]
        L.append("\tPt\tTime\tFreq\tZreal\tZimag\tZsig\tZmod\tZphz\tIdc\tVdc\tIERange")
        L.append("\t#\ts\tHz\tohm\tohm\tV\tohm\t\xb0\tA\tV\t#")
        for k, (f, re, im) in enumerate(rows):
            L.append("\t" + "\t".join([str(k), n(k * 2.0), n(f), n(re), n(im), n(1.0), n(abs(complex(re, im))), n(math.degrees(math.atan2(im, re))), n(0.0), n(0.0), "9"]))
    elif layout == "z":
        L += ["ZPLOT2 ASCII", "  Measured Data, Software:    1.0.0", "  Freq(Hz)\tAmpl\tBias\tTime(Sec)\tZ'(a)\tZ''(b)\tGD\tErr\tRange", "End Comments"]
        for f, re, im in rows:
            L.append("\t".join([n(f), n(0.0), n(0.0), n(0.0), n(re), n(im), n(0.0), "0", "0"]))
    text = "\n".join(L) + "\n"
    with open(path, "w", encoding="latin1") as fh:
        fh.write(text)
    return text


# ---------------------------------------------------------------------------- oracle
def compare(ctx, case, data_sets, rtol, what):
    sweeps = case["sweeps"]
    ok = ctx.check(len(data_sets) == len(sweeps), "one-dataset-per-sweep", case, f"{what}: {len(data_sets)} data sets for {len(sweeps)} sweeps")
    if not ok:
        return False
    for k, (ds, sw) in enumerate(zip(data_sets, sweeps)):
        f = ds.get_frequencies(masked=None)
        Z = ds.get_impedances(masked=None)
        fw = np.array([p[0] for p in sw])
        zw = np.array([complex(p[1], p[2]) for p in sw])
        good = f.shape == fw.shape and bool(np.all(np.abs(f - fw) <= rtol * np.abs(fw)))
        ok &= ctx.check(good, "frequencies-returned", case, f"{what}: sweep {k}: frequencies {f[:4]}... != written {fw[:4]}...")
        if not good:
            continue
        dev = np.abs(Z - zw) / np.abs(zw)
        ctx.observe(f"{case['layout']}:rel-dev", float(dev.max()))
        ok &= ctx.check(bool(np.all(dev <= rtol)), "impedances-returned", case, f"{what}: sweep {k}: worst relative deviation {dev.max():.3e} at f={fw[int(dev.argmax())]!r}: parsed {Z[int(dev.argmax())]!r}, written {zw[int(dev.argmax())]!r}")
        ok &= ctx.check(ds.get_num_points(masked=True) == 0, "impedances-returned", case, f"{what}: parsed data set has masked points")
    return ok


def body(ctx, case):
    from pyimpspec import parse_data

    layout, conv = case["layout"], case["conv"]
    labels = {"layout:" + layout, f"sweeps:{len(case['sweeps'])}"}
    npts = sum(len(s) for s in case["sweeps"])
    if npts == 1:
        labels.add("points:1")
    with tempfile.TemporaryDirectory(prefix="verif-c06-") as tmp:
        if layout == "table":
            path = os.path.join(tmp, "spectrum" + conv["ext"])
            text = write_table(case, path)
            if text is None:
                ctx.record(case, False, labels, "alias with a blank in a space/semicolon separated file (outside the contract)")
                return
            labels.update({"sep:" + repr(conv["sep"]), "case:" + conv["case"], "ext:" + (conv["ext"] or "none")})
            if conv["polar"]:
                labels.add("polar")
            if conv["decimal"] == ",":
                labels.add("decimal-comma")
            if conv["neg_a"] or conv["neg_b"]:
                labels.add("neg-marker")
            if conv["extra"]:
                labels.add("extra-columns")
            rtol = 1e-12  # pandas' default (fast) float parser is documented as not round-trip exact
        elif layout == "cli":
            return body_cli(ctx, case, tmp, labels)
        else:
            path = os.path.join(tmp, "spectrum." + layout)
            text = write_instrument(case, path)
            rtol = 1e-12 if layout == "z" else 1e-15  # .z goes through pandas, the others through float()
        try:
            data_sets = parse_data(path)
        except Exception as e:  # noqa: BLE001
            ctx.fail("file-parses", case, f"{type(e).__name__}: {e}\n--- file ---\n{text[:400]}", kind=type(e).__name__)
            ctx.record(case, False, labels, "parse failed")
            return
        compare(ctx, case, data_sets, rtol, f"{layout} file")
    sample_like = layout == "table" and (conv["f"], conv["a"], conv["b"], conv["sep"], conv["decimal"], conv["case"]) == ("f", "z'", "z''", ",", ".", "doc")
    ctx.record(case, npts >= 2 and not sample_like, sorted(labels), "single point or the sample-file convention")


def body_cli(ctx, case, tmp, labels):
    """The table printed by the command-line 'parse' command is itself such a file."""
    import pyimpspec.cli.config as config_module
    from pyimpspec import parse_data
    from pyimpspec.cli.config import get_argument_parser
    from pyimpspec.cli.parse import command as parse_command

    config_module._IGNORE_USER_CONFIG = True
    conv = dict(case["conv"], sep=",", decimal=".", f="f", a="z'", b="z''", case="doc", neg_a="", neg_b="", suffix="", extra=[], polar=False)
    src = os.path.join(tmp, "in.csv")
    write_table({"sweeps": case["sweeps"], "conv": conv}, src)
    parser = get_argument_parser()
    out = []
    to_files = bool(case["conv"].get("to_files"))
    outdir = os.path.join(tmp, "out")
    argv = ["parse", src, "--output-format", "csv"] + (["--output-to", "--output-dir", outdir] if to_files else [])
    try:
        args = config_module.parse_cli_args(parser, argv)
        parse_command(parser, args, print_func=lambda *a: out.append(" ".join(map(str, a))))
    except Exception as e:  # noqa: BLE001
        ctx.crash("cli-parse-runs", case, e)
        ctx.record(case, False, labels, "cli failed")
        return
    # one table per sweep: written to one file each (--output-to) or printed as blocks separated by an empty line, each
    # block preceded by a title line when there are several
    if to_files:
        labels.add("cli-output-to-files")
        names = sorted(os.listdir(outdir)) if os.path.isdir(outdir) else []
        tables = [open(os.path.join(outdir, n), encoding="utf-8").read() for n in names]
    else:
        tables = []
        for block in "\n".join(out).strip().split("\n\n"):
            lines = [ln for ln in block.split("\n") if ln.strip()]
            if lines and not lines[0].startswith("f (Hz)"):
                lines = lines[1:]
            if lines:
                tables.append("\n".join(lines) + "\n")
    if not ctx.check(len(tables) == len(case["sweeps"]), "one-dataset-per-sweep", case, f"'parse' {'wrote' if to_files else 'printed'} {len(tables)} tables for {len(case['sweeps'])} sweeps (argv {argv[2:]})"):
        ctx.record(case, True, sorted(labels))
        return
    again = []
    for k, printed in enumerate(tables):
        if case["conv"]["sep_out"] == "\t":
            printed = printed.replace(",", "\t")  # the same table as a tab-separated file (headers contain blanks)
        dst = os.path.join(tmp, f"printed-{k}.csv")
        with open(dst, "w", encoding="utf-8") as fh:
            fh.write(printed)
        try:
            got = parse_data(dst)
        except Exception as e:  # noqa: BLE001
            ctx.fail("cli-output-parses", case, f"{type(e).__name__}: {e}\n--- printed ---\n{printed[:400]}", kind=type(e).__name__)
            ctx.record(case, False, labels, "printed table rejected")
            return
        if not ctx.check(len(got) == 1, "one-dataset-per-sweep", case, f"table {k} printed by 'parse' holds {len(got)} data sets"):
            ctx.record(case, True, sorted(labels))
            return
        again.extend(got)
    compare(ctx, case, again, 1e-12, "table printed by 'parse --output-format csv'")
    labels.add("cli-roundtrip")
    ctx.record(case, sum(len(s) for s in case["sweeps"]) >= 2, sorted(labels), "single point")


def parts(ctx):
    return [
        Part("alias-table-exhaustive", body, items=enum_tables, exhaustive=True, budget_s={"quick": 200, "thorough": 900}),
        Part("tables", body, strategy=table_case(), n={"quick": 3000, "thorough": 20000}, budget_s={"quick": 120, "thorough": 1500}),
        Part("instruments", body, strategy=instrument_case(), n={"quick": 1500, "thorough": 8000}, budget_s={"quick": 90, "thorough": 900}),
        Part("cli", body, strategy=cli_case(), n={"quick": 240, "thorough": 1500}, budget_s={"quick": 90, "thorough": 900}),
    ]
