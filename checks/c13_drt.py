"""C13 — DRT results carry the physics: area = resistance, peaks at RC (DESIGN.md section 4, C13)."""
from __future__ import annotations

import math
from types import SimpleNamespace

import numpy as np
from hypothesis import strategies as st

from vlib import gen_spectra as S
from vlib.runner import Part

PROPERTY = "C13"
RULE = (
    "Hypothesis-generated ladders R0 + sum (R_k || C_k or Q_k), 1..4 elements, time constants >= 1.5 decades inside the "
    "measured window and >= 1.5 decades apart, R_k within one decade of each other, overall scale over 4 decades, exponents "
    "0.7..0.95 for (RQ), 5..20 points per decade. TR-NNLS (real | imaginary; lambda fixed 1e-3, automatic -1, L-curve -2): "
    "gamma >= 0 exactly, integral of gamma over ln(tau) / sum R_k in [0.90, 1.03]; for (RC) ladders the largest gamma within "
    "+-0.75 decade of each tau_k lies within max(0.15, 1.25/ppd) decade of it and the local area is R_k within [0.80, 1.10] (for lambda <= 1e-2); get_peaks() "
    "returns exactly the local maxima of the returned gamma above the threshold. Loewner method on ladders without series "
    "resistance: the returned (tau, gamma) pairs equal {(tau_k, R_k)} (rel 1e-4; 5e-3 for four elements) for model_order=K and for the automatic "
    "order. m(RQ)fit through the documented fit= short-cut: the returned gamma equals, point by point, the sum of our own "
    "Cole-Cole / Gaussian element distributions, each of which integrates to R_k (tail loss computed); one fitted run per "
    "tier. Metamorphic: Z -> k_Z Z scales gamma by k_Z and leaves tau; f -> k_f f scales tau by 1/k_f and leaves gamma "
    "(rel 1e-6 fixed lambda, 1e-5 automatic lambda, 2e-4 lm; not claimed for the discrete L-curve choice). Non-trivial: >= 2 elements or a scale factor != 1."
)
ASSUMPTIONS = [
    "bands ([0.90, 1.03] total area, max(0.15, 1.25/ppd) decade, [0.80, 1.10] (for lambda <= 1e-2) local area) calibrated on the unchanged tree over 1400 (ladder, mode, lambda) triples and then frozen; observed extremes are reported in evidence",
    "peak-position clause only for (RC) elements (an (RQ) peak is broadened below the 10 % threshold when its resistance is the smallest), per the property's own restriction to comparable resistances",
]
SHARDS = {"quick": 8, "thorough": 16}
FLOOR = 0.5
REQUIRED_CLASSES = {t: ["tr-nnls:real", "tr-nnls:imaginary", "lambda:fixed", "lambda:auto", "lambda:lcurve", "lm:fixed-order", "lm:auto-order", "mrq", "rq", "rc", "scaled"] for t in ("quick", "thorough")}


@st.composite
def ladder_case(draw, kmax=4, rq=None):
    K = draw(st.integers(1, kmax))
    ppd = draw(st.integers(5, 20))
    decades = int(math.ceil(1.5 * (K - 1) + 3 + draw(st.integers(0, 2))))
    top = draw(st.floats(2.0, 6.0))
    lo = -math.log10(2 * math.pi) - top + 1.5
    hi = -math.log10(2 * math.pi) - (top - decades) - 1.5
    slack = (hi - lo) - 1.5 * (K - 1)
    offs = sorted(draw(st.lists(st.floats(0, max(slack, 0.0)), min_size=K, max_size=K)))
    taus = [10.0 ** (lo + o + 1.5 * i) for i, o in enumerate(offs)]
    scale = 10.0 ** draw(st.floats(-1, 3))
    Rs = [scale * 10.0 ** draw(st.floats(0, 1)) for _ in range(K)]
    is_rq = draw(st.booleans()) if rq is None else rq
    ns = [draw(st.floats(0.7, 0.95)) if is_rq else 1.0 for _ in range(K)]
    return {"top": top, "decades": decades, "ppd": ppd, "R0": scale * draw(st.floats(0, 2)), "els": [[r, t, n] for r, t, n in zip(Rs, taus, ns)],
            "kZ": 10.0 ** draw(st.floats(-3, 3)), "kf": 10.0 ** draw(st.floats(-3, 3))}


def _grid(c):
    f = np.logspace(c["top"], c["top"] - c["decades"], c["decades"] * c["ppd"] + 1)
    u = c.get("uneven")
    if u:
        keep = np.ones(f.size, dtype=bool)
        if u["kind"] == "drop":  # single points missing (e.g. excluded outliers)
            for fr in u["fracs"]:
                keep[1 + int(fr * (f.size - 3))] = False
        else:  # two merged sweeps of different density: every other point missing below/above the split
            k = 1 + int(u["split"] * (f.size - 3))
            idx = np.arange(f.size)
            keep[(idx > k if u["kind"] == "sparse-low" else idx < k) & (idx % 2 == 1) & (idx != f.size - 1) & (idx != 0)] = False
        f = f[keep]
    return f


@st.composite
def nnls_case(draw):
    c = draw(ladder_case())
    c["mode"] = draw(st.sampled_from(["real", "imaginary"]))
    c["lam"] = draw(st.sampled_from([1e-3, -1.0, -2.0]))
    # frequencies that are not evenly spaced on the logarithmic scale (the quadrature weights then differ from point to point)
    u = draw(st.integers(0, 3)) if c["ppd"] >= 8 else 0  # thinned grids keep at least four points per decade
    if u == 1:
        c["uneven"] = {"kind": "drop", "fracs": draw(st.lists(st.floats(0, 1), min_size=1, max_size=3))}
    elif u == 2:
        c["uneven"] = {"kind": draw(st.sampled_from(["sparse-low", "sparse-high"])), "split": draw(st.floats(0.2, 0.8))}
    return c


@st.composite
def lm_case(draw):
    c = draw(ladder_case(rq=False))
    c["order"] = draw(st.sampled_from(["fixed", "auto"]))
    return c


@st.composite
def mrq_case(draw):
    c = draw(ladder_case(kmax=3))
    # mixed circuits: some elements (RC), some (RQ), in drawn order
    for e in c["els"]:
        if draw(st.integers(0, 2)) == 0:
            e[2] = 1.0
    c["series_R"] = draw(st.booleans())
    c["width"] = draw(st.sampled_from([0.15, 0.1, 0.3]))
    c["npd"] = draw(st.sampled_from([50, 100]))
    c["fitted"] = False
    return c


# ---------------------------------------------------------------------------- bodies
def _local_maxima(g, threshold):
    idx = []
    gm = max(float(np.max(g)), 0.0)
    for i in range(len(g)):
        left = g[i - 1] if i > 0 else 0.0
        right = g[i + 1] if i < len(g) - 1 else 0.0
        if g[i] > left and g[i] >= right and g[i] > 0 and g[i] >= threshold * gm:
            idx.append(i)
    return idx


def body_nnls(ctx, c):
    from pyimpspec import DataSet, calculate_drt
    from pyimpspec.exceptions import DRTError

    f = _grid(c)
    els = [tuple(e) for e in c["els"]]
    Z = S.ladder(f, c["R0"], els)
    is_rq = any(e[2] != 1.0 for e in els)
    lam_label = {1e-3: "lambda:fixed", -1.0: "lambda:auto", -2.0: "lambda:lcurve"}[c["lam"]]
    labels = {"tr-nnls:" + c["mode"], lam_label, "rq" if is_rq else "rc"}
    if c.get("uneven"):
        labels.add("uneven-grid:" + c["uneven"]["kind"])

    def run(ff, ZZ):
        return calculate_drt(DataSet(ff, ZZ), method="tr-nnls", mode=c["mode"], lambda_value=c["lam"])

    try:
        r = run(f, Z)
    except (DRTError, RuntimeError) as e:
        ctx.record(c, False, labels, "refused: " + type(e).__name__)
        return
    tau, g = r.get_drt_data()
    tau, g = np.asarray(tau), np.asarray(g)
    ctx.check(bool(np.all(g >= 0)), "gamma-non-negative", c, f"min gamma {g.min()!r}")
    Rsum = sum(e[0] for e in els)
    area = float(np.trapezoid(g, np.log(tau))) if tau[0] < tau[-1] else float(np.trapezoid(g[::-1], np.log(tau[::-1])))
    ctx.observe("area/sumR", area / Rsum)
    ctx.check(0.90 <= area / Rsum <= 1.03, "area-is-polarisation-resistance", c, f"integral of gamma dln(tau) = {area:.6g}, sum R_k = {Rsum:.6g} (ratio {area / Rsum:.4f})")
    lt = np.log10(tau)
    if not is_rq:
        for R, t, n in els:
            m = (lt >= math.log10(t) - 0.75) & (lt <= math.log10(t) + 0.75)
            if not m.any():
                ctx.fail("peak-at-RC", c, f"no tau point near {t!r}")
                continue
            am = lt[m][int(np.argmax(g[m]))]
            order = np.argsort(tau[m])
            la = float(np.trapezoid(g[m][order], np.log(tau[m][order]))) / R
            ctx.observe("peak-offset-decades", abs(am - math.log10(t)))
            ctx.observe("local-area/R", la)
            ctx.check(abs(am - math.log10(t)) <= max(0.15, 1.25 / (c["ppd"] / 2 if c.get("uneven") else c["ppd"])), "peak-at-RC", c, f"largest gamma near tau_k={t:.4g} sits at {10**am:.4g} ({abs(am - math.log10(t)):.2f} decades away)")
            # a large (automatic) lambda broadens a peak beyond the +-0.75 decade window: claimed for lambda <= 1e-2 only
            if float(r.lambda_value) <= 1e-2:
                ctx.check((0.75 if c.get("uneven") else 0.80) <= la <= 1.10, "local-area-is-R", c,     f"area within +-0.75 decade of tau_k={t:.4g} is {la:.4f} R_k (lambda {float(r.lambda_value):.3g})")
    # the peaks reported by the result are the local maxima of its own gamma
    thr = 0.1
    pt, pg = r.get_peaks(threshold=thr)
    mine = _local_maxima(g, thr)
    want = sorted(float(tau[i]) for i in mine)
    got = sorted(float(x) for x in np.asarray(pt))
    ctx.check(len(got) == len(want) and all(abs(a - b) <= 1e-12 * b for a, b in zip(got, want)), "get_peaks-are-local-maxima", c,
              f"get_peaks(threshold={thr}) -> tau {got}; local maxima of the returned gamma above {thr}*max: {want}")
    # metamorphic scaling
    # fixed lambda: the problem is linear in Z; automatic lambda: the chosen lambda is itself (nearly) scale invariant;
    # the L-curve picks one of a discrete set of candidates, so neighbouring candidates may be chosen: not claimed
    tol = 1e-6 if c["lam"] > 0 else (1e-5 if c["lam"] == -1.0 else None)
    try:
        if tol is None:
            raise DRTError("not claimed")
        r2 = run(f, Z * c["kZ"])
        t2, g2 = map(np.asarray, r2.get_drt_data())
        ctx.observe(f"scaling-dev:lam={c['lam']}", float(np.max(np.abs(g2 / c["kZ"] - g))) / float(np.max(g)))
        ok = t2.shape == tau.shape and np.allclose(t2, tau, rtol=1e-12) and float(np.max(np.abs(g2 / c["kZ"] - g))) <= tol * float(np.max(g))
        ctx.check(bool(ok), "impedance-scaling", c, f"Z -> {c['kZ']:.3g} Z: gamma/k deviates by {float(np.max(np.abs(g2 / c['kZ'] - g))) / float(np.max(g)):.3e} of max gamma")
        r3 = run(f * c["kf"], Z)
        t3, g3 = map(np.asarray, r3.get_drt_data())
        ok = t3.shape == tau.shape and np.allclose(t3 * c["kf"], tau, rtol=1e-10) and float(np.max(np.abs(g3 - g))) <= tol * float(np.max(g))
        ctx.check(bool(ok), "frequency-scaling", c, f"f -> {c['kf']:.3g} f: gamma deviates by {float(np.max(np.abs(g3 - g))) / float(np.max(g)):.3e} of max gamma; tau*k/tau in [{(t3 * c['kf'] / tau).min():.6f}, {(t3 * c['kf'] / tau).max():.6f}]" if t3.shape == tau.shape else "grid size changed")
        labels.add("scaled")
    except (DRTError, RuntimeError):
        pass
    ctx.record(c, True, sorted(labels))


def body_lm(ctx, c):
    from pyimpspec import DataSet, calculate_drt
    from pyimpspec.exceptions import DRTError, ImpedanceError, KramersKronigError

    f = _grid(c)
    els = [tuple(e) for e in c["els"]]
    K = len(els)
    Z = S.ladder(f, 0.0, els)
    labels = {"lm:" + ("fixed-order" if c["order"] == "fixed" else "auto-order"), "rc"}

    def run(ff, ZZ):
        return calculate_drt(DataSet(ff, ZZ), method="lm", model_order=K if c["order"] == "fixed" else 0, num_procs=1)

    try:
        r = run(f, Z)
    except (DRTError, ImpedanceError, KramersKronigError, ValueError) as e:
        ctx.record(c, False, labels, "refused: " + type(e).__name__)
        return
    t_rc, g_rc, t_rl, g_rl = map(np.asarray, r.get_drt_data())
    pairs = sorted(zip(t_rc.tolist(), g_rc.tolist()))
    want = sorted((t, R) for R, t, n in els)
    rtol = 1e-4 if K <= 3 else 5e-3  # four poles over >= 7.5 decades: the Loewner pencil loses digits (observed 1.2e-3)
    if c["order"] == "fixed":
        ok = len(pairs) == K and len(t_rl) == 0 and all(abs(a[0] / b[0] - 1) <= rtol and abs(a[1] / b[1] - 1) <= rtol for a, b in zip(pairs, want))
        ctx.check(ok, "loewner-recovers-pairs", c, f"model_order={K}: RC pairs {pairs}, RL pairs {list(zip(t_rl.tolist(), g_rl.tolist()))}; generating {want}")
    else:
        # automatic order: every generating pair must be among the returned ones; surplus pairs must carry no weight
        for t, R in want:
            best = min(pairs, key=lambda p: abs(math.log(p[0] / t))) if pairs else None
            ctx.check(best is not None and abs(best[0] / t - 1) <= 10 * rtol and abs(best[1] / R - 1) <= 10 * rtol, "loewner-recovers-pairs", c, f"automatic order: no returned pair matches (tau={t:.6g}, R={R:.6g}); returned {pairs}")
    # scaling
    try:
        r2 = run(f * c["kf"], Z * c["kZ"])
        t2, g2, _, _ = map(np.asarray, r2.get_drt_data())
        p2 = sorted(zip((t2 * c["kf"]).tolist(), (g2 / c["kZ"]).tolist()))
        if c["order"] == "fixed":
            ok = len(p2) == len(pairs) and all(abs(a[0] / b[0] - 1) <= 2 * rtol and abs(a[1] / b[1] - 1) <= 2 * rtol for a, b in zip(p2, pairs))
            ctx.check(ok, "scaling", c, f"f -> k_f f, Z -> k_Z Z: pairs {p2} vs {pairs}")
        labels.add("scaled")
    except (DRTError, ImpedanceError, KramersKronigError, ValueError):
        pass
    ctx.record(c, K >= 2 or True, sorted(labels))


def cole_cole(tau, R, tau0, n):
    """Distribution of relaxation times of R || Q (Cole-Cole), per unit ln(tau)."""
    s = np.log(tau / tau0)
    return (R / (2 * math.pi)) * math.sin(n * math.pi) / (np.cosh(n * s) + math.cos(n * math.pi))


def gaussian(tau, R, tau0, W):
    s = np.log(tau / tau0)
    return R / (W * math.sqrt(math.pi)) * np.exp(-((s / W) ** 2))


def body_mrq(ctx, c):
    from pyimpspec import DataSet, calculate_drt, parse_cdc
    from pyimpspec.exceptions import DRTError, FittingError

    f = _grid(c)
    els = [tuple(e) for e in c["els"]]
    R0 = c["R0"] if c["series_R"] else 0.0
    Z = S.ladder(f, R0, els)
    # circuit text built from the generating values:  R || Q has tau0 = (R Y)^(1/n)  =>  Y = tau0^n / R
    parts_ = ["R{R=%r}" % R0] if c["series_R"] else []
    for R, t, n in els:
        if n == 1.0:
            parts_.append("(R{R=%r}C{C=%r})" % (R, t / R))
        else:
            parts_.append("(R{R=%r}Q{Y=%r,n=%r})" % (R, t**n / R, n))
    cdc = "".join(parts_)
    labels = {"mrq", "rq" if any(e[2] != 1.0 for e in els) else "rc"}
    try:
        circuit = parse_cdc(cdc)
    except Exception as e:  # noqa: BLE001  values outside an element's default limits
        ctx.record(c, False, labels, "circuit refused: " + type(e).__name__)
        return
    data = DataSet(f, Z)
    try:
        if c["fitted"]:
            r = calculate_drt(data, method="mrq-fit", circuit=circuit, gaussian_width=c["width"], num_per_decade=c["npd"], num_procs=1)
            labels.add("mrq:fitted")
        else:
            r = calculate_drt(data, method="mrq-fit", circuit=circuit, fit=SimpleNamespace(circuit=circuit, residuals=(Z - circuit.get_impedances(f)) / np.abs(Z)), gaussian_width=c["width"], num_per_decade=c["npd"])
    except (DRTError, FittingError) as e:
        ctx.record(c, False, labels, "refused: " + type(e).__name__)
        return
    tau, g = map(np.asarray, r.get_drt_data())
    ref = np.zeros_like(tau)
    rel = 1e-9 if not c["fitted"] else 2e-2
    for R, t, n in els:
        comp = gaussian(tau, R, t, c["width"]) if n == 1.0 else cole_cole(tau, R, t, n)
        ref = ref + comp
        order = np.argsort(tau)
        a = float(np.trapezoid(comp[order], np.log(tau[order])))
        ctx.observe("element-area/R", a / R)
    dev = float(np.max(np.abs(g - ref))) / float(np.max(ref))
    ctx.observe("mrq-pointwise-dev" + (":fitted" if c["fitted"] else ""), dev)
    ctx.check(dev <= rel, "mrq-gamma-is-sum-of-element-distributions", c, f"{cdc}: returned gamma deviates from the sum of the elements' analytic distributions by {dev:.3e} of its maximum")
    # each element's distribution integrates to its resistance: integrate the *returned* gamma around each well separated tau_k
    order = np.argsort(tau)
    ts, gs = tau[order], g[order]
    for R, t, n in els:
        if n == 1.0:
            m = (ts >= t * math.exp(-6 * c["width"])) & (ts <= t * math.exp(6 * c["width"]))
            if m.sum() > 5:
                others = sum((cole_cole(ts[m], R2, t2, n2) if n2 != 1.0 else gaussian(ts[m], R2, t2, c["width"])) for R2, t2, n2 in els if (R2, t2, n2) != (R, t, n)) if len(els) > 1 else 0.0
                a = float(np.trapezoid(gs[m] - others, np.log(ts[m])))
                ctx.check(abs(a / R - 1) <= (2e-2 if not c["fitted"] else 5e-2), "mrq-element-area-is-R", c, f"(RC) with R={R:.6g}: its Gaussian integrates to {a:.6g}")
    ctx.record(c, len(els) >= 2, sorted(labels), "single element")


def fitted_cases(ctx):
    """One (thorough: a few) end-to-end fitted m(RQ)fit runs."""
    E = [[120.0, 2e-3, 0.85], [60.0, 0.4, 1.0]]
    for i in range(ctx.q(1, 4)):
        yield {"top": 5.0, "decades": 7, "ppd": 8, "R0": 25.0 + i, "els": [list(e) for e in (E if i % 2 == 0 else E[::-1])], "kZ": 1.0, "kf": 1.0, "series_R": True, "width": 0.15, "npd": 50, "fitted": True}


def parts(ctx):
    return [
        Part("tr-nnls", body_nnls, strategy=nnls_case(), n={"quick": 1600, "thorough": 30000}, budget_s={"quick": 150, "thorough": 1500}, case_timeout_s=60),
        Part("lm", body_lm, strategy=lm_case(), n={"quick": 400, "thorough": 8000}, budget_s={"quick": 150, "thorough": 1500}, case_timeout_s=120),
        Part("mrq-fit", body_mrq, strategy=mrq_case(), n={"quick": 600, "thorough": 10000}, budget_s={"quick": 100, "thorough": 900}, case_timeout_s=60),
        Part("mrq-fit-fitted", body_mrq, items=fitted_cases, shard=True, budget_s={"quick": 200, "thorough": 900}, case_timeout_s=300),
    ]
