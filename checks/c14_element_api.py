"""C14 — the element parameter API behaves as a consistent state machine (DESIGN.md section 4, C14).

Model-based (stateful) testing over a *pool* of instances of one class: generated histories of setter / reset /
label / copy / deepcopy / to_string+parse calls (valid and invalid arguments, positional-pair and keyword forms)
are applied to real elements and to a dictionary model; after every step every getter of every pool member is
compared with its model, so a change that leaks from one instance into another, or into the class defaults, is
seen at the step where it happens.
"""
from __future__ import annotations

import copy
import math

import numpy as np
from hypothesis import strategies as st

from vlib import gen_circuits as G
from vlib.runner import Part

PROPERTY = "C14"
RULE = (
    "Hypothesis-generated call histories (<= 30 steps) on a pool of instances of one class, for every class in "
    "get_elements(private=True) incl. the container Tlm: set_values / set_lower_limits / set_upper_limits / set_fixed in "
    "positional-pair, keyword and mixed form with valid arguments (ints, floats, numeric strings, +-inf limits, limits "
    "beyond the class defaults, values equal to a limit) and invalid ones (unknown key, odd positional count, key given "
    "twice, non-numeric string, None, non-bool flag, lower >= upper), set_label (valid, non-ASCII, all-digit, non-str), "
    "reset_parameter, reset_parameters(subset), set_subcircuits (containers), copy.copy, copy.deepcopy, "
    "to_string(17)+parse_cdc, copies of a whole circuit of the pool. Oracle: dictionary model of the documented semantics; "
    "all getters of all pool members, the class defaults and lower<upper are compared after every step. Non-trivial: "
    "history with >= 1 accepted limit change and >= 1 refused call; distinct by SHA-1 of the history."
)
ASSUMPTIONS = [
    "model semantics read from the docstrings/implementation contract: pairs are applied in order (keywords first), a refused pair raises and leaves its parameter unchanged, earlier pairs of the same call stay applied",
    "copy / deepcopy / parse round trip are only demanded when every value lies within its limits (the property's precondition)",
    "a NaN limit is an invalid argument (it cannot be strictly below/above the other limit) and must be refused with ValueError; a NaN value is stored like any other float",
]
SHARDS = {"quick": 8, "thorough": 16}
FLOOR = 0.3
INF = math.inf


def _symbols():
    return sorted(s for s in G.element_classes(private=True) if not s.startswith("X"))


# ---------------------------------------------------------------------------- strategies
def _num(info):
    d = info["v"]
    base = st.one_of(
        G.value_strategy(info, wide=True),
        st.floats(-30, 30, allow_nan=False).map(lambda e: 10.0**e),
        st.floats(-30, 30, allow_nan=False).map(lambda e: -(10.0**e)),
        st.sampled_from([0.0, 1.0, -1.0, d, info["lo"], info["hi"], INF, -INF, 1e300, 5e-324, math.nan]),
        st.integers(-5, 1000),
    )
    return st.one_of(base, base, base, base.map(lambda x: repr(float(x)) if math.isfinite(float(x)) else x))


_BAD_VALUES = ["abc", "", None, [1.0], "1e", "--3"]
_BAD_FLAGS = [0, 1, "True", None, 1.0]


@st.composite
def st_pairs(draw, keys, info, which):
    """(args, kwargs) for one setter call."""
    n = draw(st.integers(1, min(3, len(keys)) if draw(st.integers(0, 3)) else 1))
    chosen = draw(st.lists(st.sampled_from(keys), min_size=n, max_size=n, unique=draw(st.integers(0, 9)) > 0))
    pairs = []
    for k in chosen:
        if which == "fixed":
            v = draw(st.booleans()) if draw(st.integers(0, 7)) else draw(st.sampled_from(_BAD_FLAGS))
        else:
            v = draw(_num(info[k])) if draw(st.integers(0, 9)) else draw(st.sampled_from(_BAD_VALUES))
        pairs.append([k, v])
    if draw(st.integers(0, 11)) == 0:
        pairs[draw(st.integers(0, len(pairs) - 1))][0] = draw(st.sampled_from(["nope", "r", "", "X_1"]))
    form = draw(st.sampled_from(["args", "kwargs", "mixed"]))
    args, kwargs = [], {}
    for i, (k, v) in enumerate(pairs):
        to_kw = form == "kwargs" or (form == "mixed" and i % 2 == 0)
        if to_kw and isinstance(k, str) and k.isidentifier() and k not in kwargs:
            kwargs[k] = v
        else:
            args += [k, v]
    if args and draw(st.integers(0, 14)) == 0:
        args = args[:-1]  # odd positional count
    if kwargs and draw(st.integers(0, 14)) == 0:
        k = sorted(kwargs)[0]
        args += [k, kwargs[k]]  # key given twice (positional and keyword)
    return args, kwargs


_LABELS = st.one_of(
    G.label_identifier(),
    G.label_rich(),
    st.sampled_from(["", "  padded  ", "a b", "x-1", "R1"]),
    st.sampled_from(["123", " 42 ", "é", "naïve", "µF", None, 7, 1.5]),
)


@st.composite
def history(draw):
    sym = draw(st.sampled_from(_symbols()))
    cls = G.element_classes()[sym]
    info = G.class_info(cls)
    keys = sorted(info)
    is_cont = G.is_container(cls)
    sub_keys = sorted(cls.get_default_subcircuits()) if is_cont else []
    ops = []
    n = draw(st.integers(1, 30))
    tgt = st.integers(0, 5)
    for _ in range(n):
        kind = draw(st.sampled_from(["values", "lower", "upper", "lower", "upper", "fixed", "label", "reset1", "reset", "copy", "deepcopy", "parse", "circuit-copy"] + (["sub", "sub"] if is_cont else [])))
        t = draw(tgt)
        if kind in ("values", "lower", "upper", "fixed"):
            args, kwargs = draw(st_pairs(keys, info, kind))
            ops.append({"op": "set", "which": kind, "t": t, "args": args, "kwargs": kwargs})
        elif kind == "label":
            ops.append({"op": "label", "t": t, "label": draw(_LABELS)})
        elif kind == "reset1":
            ops.append({"op": "reset1", "t": t, "key": draw(st.sampled_from(keys + ["nope"])) if draw(st.integers(0, 9)) == 0 else draw(st.sampled_from(keys))})
        elif kind == "reset":
            sub = draw(st.lists(st.sampled_from(keys), unique=True, max_size=len(keys)))
            as_kw = draw(st.booleans())
            bad = draw(st.integers(0, 11)) == 0
            ops.append({"op": "reset", "t": t, "args": ([] if as_kw else sub) + (["nope"] if bad else []), "kwargs": {k: 0 for k in sub} if as_kw else {}})
        elif kind == "sub":
            val = draw(st.one_of(st.sampled_from(["open", "short", "bad"]), G.st_tree(["R", "C", "Q"], max_leaves=2, state="values", canonical=True)))
            ops.append({"op": "sub", "t": t, "key": draw(st.sampled_from(sub_keys + ["nope"])) if draw(st.integers(0, 9)) == 0 else draw(st.sampled_from(sub_keys)), "value": val, "kw": draw(st.booleans())})
        elif kind == "circuit-copy":
            ops.append({"op": "circuit-copy", "deep": draw(st.booleans())})
        else:
            ops.append({"op": kind, "t": t})
    return {"sym": sym, "ops": ops}


# ---------------------------------------------------------------------------- model
class Model:
    def __init__(self, cls):
        info = G.class_info(cls)
        self.v = {k: i["v"] for k, i in info.items()}
        self.lo = {k: i["lo"] for k, i in info.items()}
        self.hi = {k: i["hi"] for k, i in info.items()}
        self.fx = {k: bool(i["fx"]) for k, i in info.items()}
        self.label = ""
        self.subs = None
        if G.is_container(cls):
            self.subs = {k: (None if v is None else v.to_string(17)) for k, v in cls.get_default_subcircuits().items()}

    def clone(self):
        m = copy.copy(self)
        m.v, m.lo, m.hi, m.fx = dict(self.v), dict(self.lo), dict(self.hi), dict(self.fx)
        m.subs = None if self.subs is None else dict(self.subs)
        return m

    def within_limits(self):
        return all(self.lo[k] <= self.v[k] <= self.hi[k] and math.isfinite(self.v[k]) for k in self.v)


class Refused(Exception):
    def __init__(self, exc_type):
        self.exc_type = exc_type


def _pairs(args, kwargs):
    """Replicates the documented call convention: keywords first, then positional pairs; errors before any update."""
    pairs = dict(kwargs)
    if args:
        if len(args) % 2 != 0:
            raise Refused(ValueError)
        lst = list(args)
        while lst:
            k, v = lst.pop(0), lst.pop(0)
            if k in pairs:
                raise Refused(KeyError)
            pairs[k] = v
    return pairs


def _to_float(v):
    try:
        return float(v)
    except ValueError:
        raise Refused(ValueError)
    except TypeError:
        raise Refused(TypeError)


def model_set(m: Model, which, args, kwargs, counts):
    for k, v in _pairs(args, kwargs).items():
        if k not in m.v:
            raise Refused(KeyError)
        if which == "fixed":
            if not isinstance(v, (bool, np.bool_)):
                raise Refused(TypeError)
            m.fx[k] = bool(v)
            continue
        x = _to_float(v)
        if which == "values":
            m.v[k] = x
        elif which == "lower":
            if math.isnan(x) or x >= m.hi[k]:  # NaN is not a limit: lower < upper must hold afterwards
                raise Refused(ValueError)
            if m.v[k] < x:
                m.v[k] = x
                counts["value-moved-onto-limit"] += 1
            m.lo[k] = x
            counts["accepted-limit-change"] += 1
        else:
            if math.isnan(x) or x <= m.lo[k]:
                raise Refused(ValueError)
            if m.v[k] > x:
                m.v[k] = x
                counts["value-moved-onto-limit"] += 1
            m.hi[k] = x
            counts["accepted-limit-change"] += 1


def model_label(m: Model, label):
    if not isinstance(label, str):
        raise Refused(TypeError)
    label = label.strip()
    if label != "":
        if not label.isascii():
            raise Refused(ValueError)
        if label.isdigit() or all(ch.isdigit() for ch in label):
            raise Refused(ValueError)
    m.label = label


def model_reset(m: Model, cls, keys):
    info = G.class_info(cls)
    for k in keys:
        if k not in info:
            raise Refused(KeyError)
    for k in keys:
        m.v[k], m.lo[k], m.hi[k], m.fx[k] = info[k]["v"], info[k]["lo"], info[k]["hi"], bool(info[k]["fx"])


# ---------------------------------------------------------------------------- comparison
def _same(a, b):
    return a == b or (isinstance(a, float) and isinstance(b, float) and math.isnan(a) and math.isnan(b))


def compare(ctx, case, el, m: Model, step, who):
    tag = f"step {step} ({case['ops'][step]['op'] if step >= 0 else 'start'}), instance {who}"
    ok = True
    vals, lo, hi, fx = el.get_values(), el.get_lower_limits(), el.get_upper_limits(), el.are_fixed()
    for name, got, want in (("values", vals, m.v), ("lower limits", lo, m.lo), ("upper limits", hi, m.hi), ("fixed flags", fx, m.fx)):
        same = set(got) == set(want) and all(_same(got[k], want[k]) for k in want)
        ok &= ctx.check(same, "getters-equal-model", case, f"{tag}: {name} {got} != model {want}")
    if not ok:
        return False
    for k in m.v:
        ok &= ctx.check(
            _same(el.get_value(k), m.v[k]) and _same(el.get_lower_limit(k), m.lo[k]) and _same(el.get_upper_limit(k), m.hi[k]) and el.is_fixed(k) == m.fx[k],
            "getters-equal-model", case, f"{tag}: single-key getters of {k} disagree with the dictionary getters",
        )
        ok &= ctx.check(lo[k] < hi[k], "lower-below-upper", case, f"{tag}: {k}: lower {lo[k]} !< upper {hi[k]}")
    ok &= ctx.check(el.get_label() == m.label, "getters-equal-model", case, f"{tag}: label {el.get_label()!r} != model {m.label!r}")
    if m.subs is not None:
        subs = el.get_subcircuits()
        got = {k: (None if v is None else v.to_string(17)) for k, v in subs.items()}
        ok &= ctx.check(got == m.subs, "subcircuits-equal-model", case, f"{tag}: sub-circuits {got} != model {m.subs}")
    return ok


def _decode_sub(value):
    from pyimpspec import Series

    if value == "open":
        return None
    if value == "short":
        return Series([])
    if value == "bad":
        return "R"
    return G.build_connection(value)


def _label_carried(label: str) -> bool:
    """Labels the CDC label token can carry (see C03 known finding F09): ASCII letter first, balanced braces, one line."""
    if label == "":
        return True
    if not (label[0].isascii() and label[0].isalpha()):
        return False
    depth = 0
    for ch in label:
        if ch == "{":
            depth += 1
        elif ch == "}":
            depth -= 1
            if depth < 0:
                return False
        elif ch in "\n\r":
            return False
    return depth == 0


def run_history(ctx, case):
    from collections import Counter

    from pyimpspec import Circuit, Series, parse_cdc

    cls = G.element_classes()[case["sym"]]
    snapshot = G.class_info(cls)
    sub_snapshot = None
    if G.is_container(cls):
        sub_snapshot = {k: (None if v is None else v.to_string(17)) for k, v in cls.get_default_subcircuits().items()}
    pool = [(cls(), Model(cls)), (cls(), Model(cls))]  # instance 1 is never targeted: it must never change
    counts = Counter()
    labels = {"class:" + case["sym"]}

    def target(t):
        i = t % len(pool)
        if i == 1:
            i = 0
        return i

    def all_ok(step):
        ok = True
        for i, (el, m) in enumerate(pool):
            ok &= compare(ctx, case, el, m, step, i)
        ok &= ctx.check(G.class_info(cls) == snapshot, "class-defaults-unchanged", case, f"step {step}: class defaults {G.class_info(cls)} != {snapshot}")
        if sub_snapshot is not None:
            now = {k: (None if v is None else v.to_string(17)) for k, v in cls.get_default_subcircuits().items()}
            ok &= ctx.check(now == sub_snapshot, "class-defaults-unchanged", case, f"step {step}: default sub-circuits changed: {now}")
        return ok

    for step, op in enumerate(case["ops"]):
        kind = op["op"]
        labels.add("op:" + (kind if kind != "set" else "set_" + op["which"]))
        if kind in ("set", "label", "reset1", "reset", "sub"):
            i = target(op["t"])
            el, m = pool[i]
            trial = m.clone()
            expected = None
            try:
                if kind == "set":
                    try:
                        model_set(trial, op["which"], op["args"], op["kwargs"], counts)
                    finally:
                        pass
                elif kind == "label":
                    model_label(trial, op["label"])
                elif kind == "reset1":
                    model_reset(trial, cls, [op["key"]])
                elif kind == "reset":
                    keys = list(dict.fromkeys(list(op["args"]) + list(op["kwargs"])))
                    model_reset(trial, cls, keys if keys else list(trial.v))
                else:
                    if op["key"] not in trial.subs:
                        raise Refused(KeyError)
                    if op["value"] == "bad":
                        raise Refused(TypeError)
                    con = _decode_sub(op["value"])
                    trial.subs[op["key"]] = None if con is None else con.to_string(17)
            except Refused as r:
                expected = r.exc_type
            got = None
            try:
                if kind == "set":
                    fn = {"values": el.set_values, "lower": el.set_lower_limits, "upper": el.set_upper_limits, "fixed": el.set_fixed}[op["which"]]
                    fn(*op["args"], **op["kwargs"])
                elif kind == "label":
                    el.set_label(op["label"])
                elif kind == "reset1":
                    el.reset_parameter(op["key"])
                elif kind == "reset":
                    el.reset_parameters(*op["args"], **op["kwargs"])
                else:
                    con = _decode_sub(op["value"])
                    if op["kw"] and op["key"].isidentifier():
                        el.set_subcircuits(**{op["key"]: con})
                    else:
                        el.set_subcircuits(op["key"], con)
            except (KeyError, ValueError, TypeError) as e:
                got = type(e)
            # the model was advanced pair by pair up to the refused pair, exactly like the documented contract
            pool[i] = (el, trial)
            if expected is not None or got is not None:
                counts["refused"] += 1 if expected is not None else 0
                ctx.check(
                    expected is not None and got is not None and issubclass(got, expected),
                    "refusal-as-documented", case,
                    f"step {step} {op}: model expects {'acceptance' if expected is None else expected.__name__}, library {'accepted' if got is None else 'raised ' + got.__name__}",
                )
        elif kind in ("copy", "deepcopy", "parse"):
            i = target(op["t"])
            el, m = pool[i]
            if not m.within_limits():
                counts["copy-skipped:value-outside-limits"] += 1
            elif kind == "parse" and not _label_carried(m.label):
                counts["parse-skipped:label-not-carried"] += 1
            elif kind == "parse" and m.subs is not None and any(v is not None and v == "[]" for v in m.subs.values()) and False:
                pass
            else:
                try:
                    if kind == "copy":
                        new = copy.copy(el)
                    elif kind == "deepcopy":
                        new = copy.deepcopy(el)
                    else:
                        c = parse_cdc(el.to_string(17))
                        els = c.get_elements(recursive=False)
                        ctx.check(len(els) == 1 and type(els[0]) is cls, "copy-equals-original", case, f"step {step}: parse(to_string(17)) gave {c.to_string()}")
                        new = els[0]
                    ctx.check(new is not el and type(new) is cls, "copy-equals-original", case, f"step {step}: {kind} returned the same object or another type")
                    m2 = m.clone()
                    if kind == "parse":
                        # the parser stores sub-circuits in its canonical form ("[(RC)]" as "(RC)"): equal up to that
                        diff = G.equiv(G.normalize(G.circuit_to_ast(new)), G.normalize(G.circuit_to_ast(el)))
                        ctx.check(diff is None, "copy-equals-original", case, f"step {step}: parse(to_string(17)) differs: {diff}")
                        if m2.subs is not None:
                            m2.subs = {k: (None if v is None else v.to_string(17)) for k, v in new.get_subcircuits().items()}
                    else:
                        ctx.check(new.to_string(17) == el.to_string(17), "copy-equals-original", case, f"step {step}: {kind}: {new.to_string(17)!r} != {el.to_string(17)!r}")
                    if len(pool) < 6:
                        pool.append((new, m2))
                    else:
                        compare(ctx, case, new, m2, step, "copy")
                    counts["copies"] += 1
                except Exception as e:  # noqa: BLE001
                    ctx.crash("copy-succeeds-within-limits", case, e)
        elif kind == "circuit-copy":
            members = [(el, m) for el, m in pool if m.within_limits()]
            if members:
                circuit = Circuit(Series([el for el, _ in members]))
                try:
                    dup = copy.deepcopy(circuit) if op["deep"] else copy.copy(circuit)
                    new_els = dup.get_elements(recursive=False)
                    ctx.check(len(new_els) == len(members) and dup.to_string(17) == circuit.to_string(17), "copy-equals-original", case, f"step {step}: circuit copy {dup.to_string(17)!r} != {circuit.to_string(17)!r}")
                    for (el, m), ne in zip(members, new_els):
                        ctx.check(ne is not el, "copy-independent", case, f"step {step}: circuit copy shares an element object with the original")
                        compare(ctx, case, ne, m, step, "circuit-copy")
                        # mutate the copy in every way; the originals are compared with their models right below
                        k = sorted(m.v)[0]
                        ne.set_values(k, m.v[k] + 1.0 if math.isfinite(m.v[k]) else 1.0).set_fixed(k, not m.fx[k]).set_label("mutated")
                        ne._remove_limits  # noqa: B018  (public setters only below)
                        if m.lo[k] > -INF:
                            ne.set_lower_limits(k, -INF)
                        if isinstance(getattr(ne, "get_subcircuits", None), object) and m.subs is not None:
                            for sk, sv in ne.get_subcircuits().items():
                                if sv is not None:
                                    for sub_el in sv.get_elements():
                                        kk = sorted(sub_el.get_values())[0]
                                        sub_el.set_values(kk, 12345.678)
                    counts["circuit-copies"] += 1
                except Exception as e:  # noqa: BLE001
                    ctx.crash("copy-succeeds-within-limits", case, e)
        if not all_ok(step):
            break
    for k, v in counts.items():
        if v:
            labels.add(k)
    nontrivial = counts["accepted-limit-change"] >= 1 and counts["refused"] >= 1
    ctx.record(case, nontrivial, sorted(labels), "no accepted limit change or no refused call")


REQUIRED_CLASSES = {
    "quick": ["class:Tlm", "class:R", "class:K", "copies", "circuit-copies", "value-moved-onto-limit", "op:sub", "op:reset", "op:parse"],
    "thorough": ["class:Tlm", "class:R", "class:K", "copies", "circuit-copies", "value-moved-onto-limit", "op:sub", "op:reset", "op:parse"],
}


def parts(ctx):
    return [Part("histories", run_history, strategy=history(), n={"quick": 8000, "thorough": 160000}, budget_s={"quick": 150, "thorough": 1800})]
