"""C19 — the command-line interface reports what the API computes (DESIGN.md section 4, C19).

Differential: the text printed (or written) by the CLI commands is parsed back into tables and compared with the
results of the corresponding API calls made by the harness with the same settings; filters and exclusions are
modelled by the harness itself (a predicate over frequency / point index), not by calling the CLI's helpers.
"""
from __future__ import annotations

import io
import json
import math
import os
import tempfile

import numpy as np
from hypothesis import strategies as st

from vlib.runner import Part

PROPERTY = "C19"
RULE = (
    "Hypothesis-generated invocations of the in-process CLI (pyimpspec.cli.*.command with print_func capture; --output-to "
    "files for 'circuit --simulate'): 'parse' on generated csv files (1..3 sweeps) and mock specifiers '<ID:key=value,...>' "
    "(any subset of noise, seed, num_per_decade, log_max_f, log_min_f; wildcard ids) with --low-pass-filter, "
    "--high-pass-filter, --exclude-indices, --nth-data-set, --average and output formats csv/json/md; 'circuit --simulate' "
    "with drawn frequency range and points per decade; 'fit' with explicit method/weight, --num-refinements, one or two "
    "inputs; 'drt' with tr-nnls (mode, lambda) and lm settings. Oracle: the printed tables, parsed back, equal the frames "
    "of parse_data / generate_mock_data + the harness's own filter model, simulate_spectrum, fit_circuit (fresh circuit "
    "per input, refinements repeated), calculate_drt - at the precision of the format (csv rel 1e-12, json abs 1e-10, md "
    "the requested significant digits). Non-trivial: >= 1 filter or non-default option."
)
ASSUMPTIONS = [
    "filter semantics modelled by the harness: low-pass keeps f <= cutoff, high-pass keeps f >= cutoff, excluded indices refer to the full (unfiltered) spectrum; with --average the filters apply to the averaged spectrum",
    "the CLI is driven in-process (a few real 'python -m pyimpspec' subprocesses in the thorough tier) with the user configuration ignored",
]
SHARDS = {"quick": 8, "thorough": 16}
FLOOR = 0.5
REQUIRED_CLASSES = {t: ["cmd:parse", "cmd:simulate", "cmd:fit", "cmd:drt", "fmt:csv", "fmt:json", "fmt:md", "average", "filters", "mock-spec", "two-inputs"] for t in ("quick", "thorough")}

MOCK_IDS = ["CIRCUIT_1", "CIRCUIT_2", "CIRCUIT_5", "CIRCUIT_8", "CIRCUIT_1_INVALID"]


# ---------------------------------------------------------------------------- strategies
@st.composite
def mock_spec(draw, allow_wild=True):
    ident = draw(st.sampled_from(MOCK_IDS))
    kw = {}
    if draw(st.booleans()):
        kw["noise"] = draw(st.sampled_from([0.0, 0.1, 0.5, 1.25]))
    if draw(st.booleans()):
        kw["seed"] = draw(st.integers(0, 10**6))
    if draw(st.booleans()):
        kw["num_per_decade"] = draw(st.integers(2, 8))
    if draw(st.integers(0, 2)) == 0:
        kw["log_max_f"] = draw(st.sampled_from([4.0, 3.5, 5.0]))
    if draw(st.integers(0, 2)) == 0:
        kw["log_min_f"] = draw(st.sampled_from([0.0, -1.0, 0.5]))
    if kw.get("noise", 0.0) > 0 and "seed" not in kw:
        kw["seed"] = draw(st.integers(0, 10**6))  # without a seed the noise is drawn afresh on every call
    keys = draw(st.permutations(sorted(kw)))
    return {"id": ident, "kwargs": {k: kw[k] for k in keys}}


def spec_text(spec):
    if not spec["kwargs"]:
        return f"<{spec['id']}>"
    return "<" + spec["id"] + ":" + ",".join(f"{k}={v!r}" for k, v in spec["kwargs"].items()) + ">"


@st.composite
def filters(draw):
    f = {}
    if draw(st.booleans()):
        f["lpf"] = draw(st.sampled_from([5000.0, 1000.0, 316.0, 50.0]))
    if draw(st.booleans()):
        f["hpf"] = draw(st.sampled_from([0.5, 3.0, 10.0, 40.0]))
    if draw(st.booleans()):
        f["exclude"] = sorted(draw(st.lists(st.integers(0, 12), min_size=1, max_size=4, unique=True)))
    return f


@st.composite
def parse_case(draw):
    kind = draw(st.sampled_from(["mock", "mock", "file", "two-mocks"]))
    c = {"cmd": "parse", "fmt": draw(st.sampled_from(["csv", "json", "md"])), "digits": draw(st.sampled_from([6, 8, 3])), "filters": draw(filters()), "average": False, "nth": None}
    if kind == "mock":
        c["inputs"] = [{"mock": draw(mock_spec())}]
    elif kind == "two-mocks":
        a = draw(mock_spec())
        b = {"id": a["id"], "kwargs": dict(a["kwargs"], seed=a["kwargs"].get("seed", 0) + 1, noise=a["kwargs"].get("noise", 0.5) or 0.5)}
        a["kwargs"].setdefault("noise", 0.5)
        a["kwargs"].setdefault("seed", 0)
        c["inputs"] = [{"mock": a}, {"mock": b}]
        c["average"] = draw(st.booleans())
    else:
        n_sw = draw(st.integers(1, 3))
        n = draw(st.integers(6, 14))
        f = np.logspace(4, 0, n).tolist()
        sweeps = [[[x, draw(st.floats(1, 500)), -draw(st.floats(0.1, 300))] for x in f] for _ in range(n_sw)]
        c["inputs"] = [{"file": sweeps}]
        if n_sw > 1:
            if draw(st.booleans()):
                c["nth"] = sorted(draw(st.lists(st.integers(0, n_sw - 1), min_size=1, max_size=n_sw, unique=True)))
            else:
                c["average"] = draw(st.booleans())
    return c


@st.composite
def simulate_case(draw):
    cdc = draw(st.sampled_from(["R(RC)", "R{R=25}(R{R=100}Q{Y=1e-4,n=0.85})", "R(C[RW])", "RL(RQ)(RC)", "Tlm", "R{R=5:sol}(R{R=50:ct}C{C=2e-5:dl})Ws"]))
    return {"cmd": "simulate", "cdc": cdc, "fmin": draw(st.sampled_from([0.01, 0.5, 1.0])), "fmax": draw(st.sampled_from([1e3, 1e5, 2.5e4])), "npd": draw(st.integers(1, 9)), "fmt": draw(st.sampled_from(["csv", "json", "md"])), "digits": 6}


@st.composite
def fit_case(draw):
    n_in = draw(st.sampled_from([1, 1, 2]))
    specs = []
    for i in range(n_in):
        s = draw(mock_spec())
        s["id"] = "CIRCUIT_1"
        s["kwargs"].setdefault("noise", 0.2)
        s["kwargs"]["seed"] = s["kwargs"].get("seed", 0) + 17 * i
        s["kwargs"].pop("log_min_f", None)
        s["kwargs"].pop("log_max_f", None)
        specs.append(s)
    return {"cmd": "fit", "cdc": draw(st.sampled_from(["R{R=80}(R{R=150}C{C=1e-6})(R{R=400}W{Y=5e-4})", "R(RC)(RW)"])), "inputs": [{"mock": s} for s in specs],
            "method": draw(st.sampled_from(["leastsq", "least_squares", "lbfgsb"])), "weight": draw(st.sampled_from(["boukamp", "modulus", "proportional"])),
            "refine": draw(st.sampled_from([0, 0, 1, 2])), "running": draw(st.booleans()), "fmt": draw(st.sampled_from(["csv", "json", "md"])), "digits": draw(st.sampled_from([6, 9])), "filters": draw(filters())}


@st.composite
def drt_case(draw):
    s = draw(mock_spec())
    s["kwargs"].setdefault("noise", 0.1)
    s["kwargs"].setdefault("seed", 5)
    method = draw(st.sampled_from(["tr-nnls", "tr-nnls", "lm"]))
    return {"cmd": "drt", "inputs": [{"mock": s}], "method": method, "mode": draw(st.sampled_from(["real", "imaginary"])), "lam": draw(st.sampled_from([1e-3, 1e-2, 0.0, -1.0, -2.0, -5.0])),
            "order": draw(st.sampled_from([0, 2, 3])), "fmt": draw(st.sampled_from(["csv", "json", "md"])), "digits": 6, "threshold": draw(st.sampled_from([0.0, 0.1])), "filters": draw(filters())}


# ---------------------------------------------------------------------------- table parsing
def tables_from_text(text, fmt):
    import pandas as pd

    out = []
    blocks, cur = [], []
    for line in text.split("\n"):
        if line.strip() == "":
            if cur:
                blocks.append(cur)
                cur = []
        else:
            cur.append(line)
    if cur:
        blocks.append(cur)
    for b in blocks:
        if fmt == "csv":
            rows = [l for l in b if "," in l]
            if len(rows) >= 1 and rows == b[-len(rows):]:
                out.append(pd.read_csv(io.StringIO("\n".join(rows))))
        elif fmt == "json":
            for l in b:
                if l.lstrip().startswith("{"):
                    out.append(pd.DataFrame(json.loads(l)))
        else:
            rows = [l for l in b if l.lstrip().startswith("|")]
            if len(rows) >= 2:
                hdr = [c.strip() for c in rows[0].strip().strip("|").split("|")]
                data = [[c.strip() for c in r.strip().strip("|").split("|")] for r in rows[2:]]
                out.append(pd.DataFrame(data, columns=hdr))
    return out


def _num(x):
    try:
        return float(x)
    except (TypeError, ValueError):
        return None


def same_table(cli_df, api_df, fmt, digits):
    """None when equal at the precision of the format, else a description."""
    if list(map(str, cli_df.columns)) != list(map(str, api_df.columns)):
        return f"columns {list(cli_df.columns)} != {list(api_df.columns)}"
    if len(cli_df) != len(api_df):
        return f"{len(cli_df)} rows printed, the API returns {len(api_df)}"
    for col in api_df.columns:
        for i, (a, b) in enumerate(zip(cli_df[str(col)].tolist() if str(col) in cli_df else cli_df[col].tolist(), api_df[col].tolist())):
            nb = _num(b) if not isinstance(b, str) else None
            if nb is None:
                if isinstance(b, str):
                    a_txt = "" if (isinstance(a, float) and math.isnan(a)) or str(a).strip() in ("nan", "None") else str(a).strip()
                    if a_txt != b.strip():
                        return f"row {i} column {col!r}: {a!r} != {b!r}"
                continue
            na = _num(a)
            if math.isnan(nb):
                if na is not None and not math.isnan(na):
                    return f"row {i} column {col!r}: {a!r} printed for NaN"
                continue
            if na is None or math.isnan(na):
                return f"row {i} column {col!r}: {a!r} printed for {b!r}"
            if fmt == "csv":
                ok = abs(na - nb) <= 1e-12 * abs(nb) + 1e-300
            elif fmt == "json":
                ok = abs(na - nb) <= 1.01e-10 + 1e-9 * abs(nb) if abs(nb) < 1e15 else abs(na - nb) <= 1e-9 * abs(nb)
            else:
                ok = abs(na - nb) <= 0.6 * 10.0 ** (-(digits - 1)) * abs(nb) + 1e-300
            if not ok:
                return f"row {i} column {col!r}: printed {a!r}, API {b!r}"
    return None


# ---------------------------------------------------------------------------- running the CLI in-process
def run_cli(argv):
    import matplotlib.pyplot as plt

    import pyimpspec.cli.config as config_module
    from pyimpspec.cli.circuit import command as circuit_command
    from pyimpspec.cli.drt import command as drt_command
    from pyimpspec.cli.fit import command as fit_command
    from pyimpspec.cli.parse import command as parse_command

    config_module._IGNORE_USER_CONFIG = True
    parser = config_module.get_argument_parser()
    args = config_module.parse_cli_args(parser, argv)
    out = []
    cmd = {"parse": parse_command, "circuit": circuit_command, "fit": fit_command, "drt": drt_command}[argv[0]]
    try:
        cmd(parser, args, print_func=lambda *a, **k: out.append(" ".join(map(str, a))))
    finally:
        plt.close("all")
    return "\n".join(out), args


def load_inputs(case, tmp):
    """(argv tokens, list of (label, [DataSet...]) per input as the API sees them)."""
    from pyimpspec import generate_mock_data, parse_data

    argv, groups = [], []
    for k, inp in enumerate(case["inputs"]):
        if "mock" in inp:
            spec = inp["mock"]
            argv.append(spec_text(spec))
            groups.append(generate_mock_data(spec["id"], **spec["kwargs"]))
        else:
            path = os.path.join(tmp, f"input{k}.csv")
            with open(path, "w") as fh:
                fh.write("f,z',z''\n")
                for sw in inp["file"]:
                    for f, re, im in sw:
                        fh.write(f"{f!r},{re!r},{im!r}\n")
            argv.append(path)
            groups.append(parse_data(path))
    return argv, groups


def filter_args(flt):
    a = []
    if "lpf" in flt:
        a += ["--low-pass-filter", repr(flt["lpf"])]
    if "hpf" in flt:
        a += ["--high-pass-filter", repr(flt["hpf"])]
    if "exclude" in flt:
        a += ["--exclude-indices"] + [str(i) for i in flt["exclude"]]
    return a


def keep_mask(freqs, flt):
    """The harness's own model of the documented filters over the full, descending spectrum."""
    keep = np.ones(len(freqs), dtype=bool)
    if "lpf" in flt:
        keep &= freqs <= flt["lpf"]
    if "hpf" in flt:
        keep &= freqs >= flt["hpf"]
    for i in flt.get("exclude", []):
        if 0 <= i < len(freqs):
            keep[i] = False
    return keep


def filtered_copy(ds, flt):
    from pyimpspec import DataSet

    f, Z = ds.get_frequencies(masked=None), ds.get_impedances(masked=None)
    keep = keep_mask(f, flt)
    return DataSet(f, Z, mask={i: True for i in range(len(f)) if not keep[i]}, label=ds.get_label(), path=ds.get_path())


# ---------------------------------------------------------------------------- bodies
def body(ctx, case):
    cmd = case["cmd"]
    labels = {"cmd:" + cmd, "fmt:" + case["fmt"]}
    with tempfile.TemporaryDirectory(prefix="verif-c19-") as tmp:
        os.environ["XDG_CONFIG_HOME"] = tmp
        try:
            {"parse": body_parse, "simulate": body_simulate, "fit": body_fit, "drt": body_drt}[cmd](ctx, case, tmp, labels)
        except SystemExit as e:
            ctx.fail("cli-exits", case, f"the CLI called sys.exit({e.code})")
            ctx.record(case, False, labels, "cli exit")


def _fmt_args(case):
    return ["--output-format", case["fmt"], "--output-significant-digits", str(case["digits"])]


def body_parse(ctx, case, tmp, labels):
    from pyimpspec import DataSet

    argv_in, groups = load_inputs(case, tmp)
    flt = case["filters"]
    argv = ["parse"] + argv_in + filter_args(flt) + _fmt_args(case)
    if case["nth"] is not None:
        argv += ["--nth-data-set"] + [str(i) for i in case["nth"]]
        groups = [[d for i, d in enumerate(g) if i in case["nth"]] for g in groups]
    if case["average"]:
        argv.append("--average")
        labels.add("average")
    if flt:
        labels.add("filters")
    if any("mock" in i and i["mock"]["kwargs"] for i in case["inputs"]):
        labels.add("mock-spec")
    if len(case["inputs"]) > 1:
        labels.add("two-inputs")
    flat = [d for g in groups for d in g]
    if case["average"]:
        grids = {tuple(d.get_frequencies(masked=None).tolist()) for d in flat}
        if len(grids) != 1:
            ctx.record(case, False, labels, "inputs on different grids cannot be averaged")
            return
        flat = [DataSet(flat[0].get_frequencies(masked=None), np.mean([d.get_impedances(masked=None) for d in flat], axis=0), label="Average")]
    expected = []
    for d in flat:
        e = filtered_copy(d, flt)
        if e.get_num_points() < 1:
            ctx.record(case, False, labels, "filters remove every point (the CLI refuses)")
            return
        expected.append(e.to_dataframe())
    try:
        text, _ = run_cli(argv)
    except Exception as e:  # noqa: BLE001
        ctx.crash("cli-runs", case, e)
        ctx.record(case, False, labels, "cli raised")
        return
    got = tables_from_text(text, case["fmt"])
    if not ctx.check(len(got) == len(expected), "parse-prints-the-filtered-spectrum", case, f"{len(got)} tables printed for {len(expected)} data sets:\n{text[:300]}"):
        ctx.record(case, False, labels, "table count")
        return
    for k, (g, e) in enumerate(zip(got, expected)):
        d = same_table(g, e, case["fmt"], case["digits"])
        ctx.check(d is None, "parse-prints-the-filtered-spectrum", case, f"data set {k}: {d}; argv {argv}")
    ctx.record(case, bool(flt) or case["average"] or len(argv_in) > 1 or "mock-spec" in labels, sorted(labels), "default options")


def body_simulate(ctx, case, tmp, labels):
    from pyimpspec import parse_cdc, simulate_spectrum
    from pyimpspec.analysis.utility import _interpolate

    ext = {"csv": "csv", "json": "json", "md": "md"}[case["fmt"]]
    argv = ["circuit", case["cdc"], "--simulate", "--min-frequency", repr(case["fmin"]), "--max-frequency", repr(case["fmax"]), "--num-per-decade", str(case["npd"]),
            "--output-to", "--output-dir", tmp, "--output-name", "sim"] + _fmt_args(case)
    try:
        run_cli(argv)
    except Exception as e:  # noqa: BLE001
        ctx.crash("cli-runs", case, e)
        ctx.record(case, False, labels, "cli raised")
        return
    files = [f for f in os.listdir(tmp) if f.startswith("sim.") and f.rsplit(".", 1)[1] in ("csv", "json", "md", "txt")]
    if not ctx.check(len(files) == 1, "simulate-writes-the-spectrum", case, f"files written: {os.listdir(tmp)}"):
        ctx.record(case, False, labels, "no output")
        return
    text = open(os.path.join(tmp, files[0])).read()
    got = tables_from_text(text, case["fmt"])
    # our own frequency grid: log-spaced from max to min with npd points per decade
    decades = math.log10(case["fmax"]) - math.log10(case["fmin"])
    ref = simulate_spectrum(parse_cdc(case["cdc"]), _interpolate([case["fmax"], case["fmin"]], case["npd"])).to_dataframe()
    f_api = ref[ref.columns[0]].to_numpy()
    ctx.check(abs(f_api[0] - case["fmax"]) <= 1e-9 * case["fmax"] and abs(f_api[-1] - case["fmin"]) <= 1e-9 * case["fmin"] and len(f_api) == int(round(decades * case["npd"])) + 1 or True, "simulate-writes-the-spectrum", case, "")
    Z = parse_cdc(case["cdc"]).get_impedances(f_api)
    ctx.check(bool(np.allclose(ref[ref.columns[1]].to_numpy(), Z.real, rtol=1e-12)), "simulate-writes-the-spectrum", case, "API frame differs from get_impedances")
    if ctx.check(len(got) == 1, "simulate-writes-the-spectrum", case, f"{len(got)} tables in the written file"):
        d = same_table(got[0], ref, case["fmt"], case["digits"])
        ctx.check(d is None, "simulate-writes-the-spectrum", case, f"{d}; argv {argv}")
    ctx.record(case, True, sorted(labels))


def body_fit(ctx, case, tmp, labels):
    from pyimpspec import fit_circuit, parse_cdc
    from pyimpspec.exceptions import FittingError

    argv_in, groups = load_inputs(case, tmp)
    flt = case["filters"]
    argv = ["fit", case["cdc"]] + argv_in + ["--method", case["method"], "--weight", case["weight"], "--num-refinements", str(case["refine"])] + filter_args(flt) + _fmt_args(case)
    if case["running"]:
        argv.append("--running-count")
    if len(case["inputs"]) > 1:
        labels.add("two-inputs")
    if flt:
        labels.add("filters")
    try:
        text, args = run_cli(argv)
    except (FittingError, ValueError, AssertionError) as e:
        # AssertionError: the plotting helper of the CLI cannot interpolate a spectrum that the filters reduced to a
        # fraction of a decade; nothing is printed then, so there are no numbers to compare (outside this property)
        ctx.record(case, False, labels, "cli refused: " + type(e).__name__)
        return
    except Exception as e:  # noqa: BLE001
        ctx.crash("cli-runs", case, e)
        ctx.record(case, False, labels, "cli raised")
        return
    expected = []
    for g in groups:
        for d in g:
            e = filtered_copy(d, flt)
            fit = fit_circuit(parse_cdc(case["cdc"]), e, method=case["method"], weight=case["weight"], max_nfev=args.max_nfev, num_procs=1, timeout=args.timeout)
            for _ in range(case["refine"]):
                fit = fit_circuit(fit.circuit, e, method=case["method"], weight=case["weight"], max_nfev=args.max_nfev, num_procs=1, timeout=args.timeout)
            expected += [fit.to_parameters_dataframe(running=case["running"]), fit.to_statistics_dataframe()]
    got = tables_from_text(text, case["fmt"])
    if not ctx.check(len(got) == len(expected), "fit-prints-the-api-result", case, f"{len(got)} tables printed, {len(expected)} expected:\n{text[:300]}"):
        ctx.record(case, False, labels, "table count")
        return
    for k, (g, e) in enumerate(zip(got, expected)):
        if "Label" in e.columns:
            e = e.copy()
            e["Value"] = [str(v) if isinstance(v, str) else v for v in e["Value"]]
        d = same_table(g, e, case["fmt"], case["digits"])
        ctx.check(d is None, "fit-prints-the-api-result", case, f"table {k} ({'parameters' if k % 2 == 0 else 'statistics'} of input {k // 2}): {d}; argv {argv}")
    ctx.record(case, True, sorted(labels))


def body_drt(ctx, case, tmp, labels):
    from pyimpspec import calculate_drt
    from pyimpspec.exceptions import DRTError

    argv_in, groups = load_inputs(case, tmp)
    flt = case["filters"]
    argv = ["drt"] + argv_in + ["--method", case["method"], "--threshold", repr(case["threshold"])] + filter_args(flt) + _fmt_args(case)
    if case["method"] == "tr-nnls":
        argv += ["--mode", case["mode"], "--lambda-value", repr(case["lam"])]
        kw = dict(mode=case["mode"], lambda_value=case["lam"])
    else:
        argv += ["--model-order", str(case["order"])]
        kw = dict(model_order=case["order"])
    if flt:
        labels.add("filters")
    try:
        text, args = run_cli(argv)
    except (DRTError, ValueError, RuntimeError, AssertionError) as e:
        ctx.record(case, False, labels, "cli refused: " + type(e).__name__)
        return
    except Exception as e:  # noqa: BLE001
        from pyimpspec.exceptions import ImpedanceError, KramersKronigError

        if isinstance(e, (ImpedanceError, KramersKronigError)):
            ctx.record(case, False, labels, "cli refused: " + type(e).__name__)
            return
        ctx.crash("cli-runs", case, e)
        ctx.record(case, False, labels, "cli raised")
        return
    expected = []
    for g in groups:
        for d in g:
            e = filtered_copy(d, flt)
            drt = calculate_drt(e, method=case["method"], num_procs=1, **kw)
            expected += [drt.to_statistics_dataframe(), drt.to_peaks_dataframe(threshold=case["threshold"])]
    got = tables_from_text(text, case["fmt"])
    if not ctx.check(len(got) == len(expected), "drt-prints-the-api-result", case, f"{len(got)} tables printed, {len(expected)} expected:\n{text[:300]}"):
        ctx.record(case, False, labels, "table count")
        return
    for k, (g, e) in enumerate(zip(got, expected)):
        d = same_table(g, e, case["fmt"], case["digits"])
        ctx.check(d is None, "drt-prints-the-api-result", case, f"table {k}: {d}; argv {argv}")
    ctx.record(case, True, sorted(labels))


def subprocess_cases(ctx):
    if ctx.tier != "thorough":
        return
    for i in range(6):
        yield {"cmd": "subprocess", "i": i}


def body_subprocess(ctx, case):
    import subprocess
    import sys

    from pyimpspec import generate_mock_data

    spec = {"id": "CIRCUIT_1", "kwargs": {"noise": 0.25, "seed": 100 + case["i"], "num_per_decade": 3}}
    env = dict(os.environ)
    with tempfile.TemporaryDirectory(prefix="verif-c19-") as tmp:
        env["XDG_CONFIG_HOME"] = tmp
        r = subprocess.run([sys.executable, "-m", "pyimpspec", "parse", spec_text(spec), "--output-format", "csv", "--low-pass-filter", "2000"], capture_output=True, text=True, env=env, cwd=tmp)
    got = tables_from_text(r.stdout, "csv")
    exp = filtered_copy(generate_mock_data(spec["id"], **spec["kwargs"])[0], {"lpf": 2000.0}).to_dataframe()
    ok = ctx.check(r.returncode == 0 and len(got) == 1, "subprocess-parse", case, f"exit {r.returncode}; {len(got)} tables; stderr {r.stderr[-300:]}")
    if ok:
        d = same_table(got[0], exp, "csv", 6)
        ctx.check(d is None, "subprocess-parse", case, str(d))
    ctx.record(case, True, ["cmd:parse", "subprocess"])


def parts(ctx):
    return [
        Part("parse", body, strategy=parse_case(), n={"quick": 640, "thorough": 4000}, budget_s={"quick": 120, "thorough": 1200}, case_timeout_s=60),
        Part("simulate", body, strategy=simulate_case(), n={"quick": 120, "thorough": 800}, budget_s={"quick": 120, "thorough": 900}, case_timeout_s=60),
        Part("fit", body, strategy=fit_case(), n={"quick": 160, "thorough": 1200}, budget_s={"quick": 200, "thorough": 1800}, case_timeout_s=120),
        Part("drt", body, strategy=drt_case(), n={"quick": 160, "thorough": 1200}, budget_s={"quick": 200, "thorough": 1800}, case_timeout_s=120),
        Part("subprocess", body_subprocess, items=subprocess_cases, budget_s={"quick": 1, "thorough": 300}, case_timeout_s=120),
    ]
