"""C09 — Kramers-Kronig verdicts do not depend on units or point order (DESIGN.md section 4, C09).

Metamorphic: the same noisy spectrum is tested as is, with all impedances multiplied by k_Z, with all frequencies
multiplied by k_f, and supplied in the opposite order; relative residuals and pseudo chi-squared must not change and
the fitted quantities must rescale.
"""
from __future__ import annotations

import math

import numpy as np
from hypothesis import strategies as st

from vlib import gen_spectra as S
from vlib.runner import Part

PROPERTY = "C09"
RULE = (
    "Hypothesis-generated noisy spectra (random RC/RQ ladders with optional series capacitance/inductance contributions, 2..7 "
    "decades, 4..12 points per decade, noise 0.01..1 % from a drawn integer seed) x {complex, real, imaginary, complex-inv, "
    "real-inv, imaginary-inv} (+ a few cnls cases, whose unit dependence is known finding F38) x {Z, Y} x add_capacitance x add_inductance x num_RC <= 2 per decade "
    "with num_F_ext_evaluations=0 x log_F_ext in [-0.5, 0.5] x scale factors k_Z, k_f log-uniform in 1e-6..1e6 x order reversal. "
    "Oracle: residual vectors agree (abs 1e-5 + rel 1e-4 of max |residual|), pseudo chi-squared rel 1e-4, time constants scale "
    "by 1/k_f (rel 1e-12), R and R_k scale by k_Z, C and C_k by 1/(k_Z k_f), L by k_Z/k_f (rel 1e-4 of the coefficient vector "
    "in design-matrix units); reversal gives bit-identical results. Non-trivial: k != 1 and a result returned; distinct by "
    "SHA-1 of the case."
)
ASSUMPTIONS = [
    "fixed num_RC and extension (no optimisation): the property speaks of a test 'with a given number of RC elements and extension'",
    "tolerances calibrated on the repaired tree (design-matrix columns are scaled since fix 789fc08); the fit is a linear least-squares problem, so the comparison tolerance is far below any effect of a wrong weight/unit",
]
SHARDS = {"quick": 8, "thorough": 16}
FLOOR = 0.5
EPS = float(np.finfo(float).eps)
LINEAR = ["complex", "real", "imaginary", "complex-inv", "real-inv", "imaginary-inv"]
REQUIRED_CLASSES = {t: [f"{x}/{r}" for x in LINEAR for r in "ZY"] + ["scale:Z", "scale:f", "reversal"] for t in ("quick", "thorough")}


@st.composite
def case_strategy(draw, tests=LINEAR):
    g = draw(S.st_grid(min_decades=2, max_decades=7, min_ppd=4, max_ppd=12, lo=-3.0, hi=6.0))
    f = S.grid(g)
    n_el = draw(st.integers(1, 3))
    lo, hi = math.log10(1 / (2 * math.pi * f.max())), math.log10(1 / (2 * math.pi * f.min()))
    els = [[draw(st.floats(0.1, 10)), 10.0 ** draw(st.floats(lo, hi)), draw(st.sampled_from([1.0, 1.0, 0.9, 0.75]))] for _ in range(n_el)]
    R0 = draw(st.floats(0.05, 5))
    test = draw(st.sampled_from(tests))
    addC, addL = draw(st.booleans()), draw(st.booleans()) or test.endswith("-inv")
    decades = g["decades"]
    num_RC = draw(st.integers(2, max(2, 2 * decades)))
    return {
        "grid": g, "R0": R0, "els": els,
        "series_C": draw(st.sampled_from([None, None, 1.0])), "series_L": draw(st.sampled_from([None, None, 1.0])),
        "noise": 10.0 ** draw(st.floats(-2, 0)), "seed": draw(st.integers(0, 2**32 - 1)),
        "test": test, "admittance": draw(st.booleans()), "addC": addC, "addL": addL, "num_RC": num_RC,
        "log_F_ext": draw(st.sampled_from([0.0, 0.0, -0.5, 0.25, 0.5])),
        "kZ": 10.0 ** draw(st.floats(-6, 6)), "kf": 10.0 ** draw(st.floats(-6, 6)),
    }


def pred_cnls(case):
    return isinstance(case, dict) and case.get("test") == "cnls"


PREDICATES = {"cnls-implementation": pred_cnls}


def spectrum(case):
    f = S.grid(case["grid"])
    Z = S.ladder(f, case["R0"], [tuple(e) for e in case["els"]])
    w = 2 * math.pi * f
    wm = math.sqrt(w.max() * w.min())
    if case["series_C"]:
        Z = Z + 1 / (1j * w * (case["series_C"] * 3.0 / wm))
    if case["series_L"]:
        Z = Z + 1j * w * (case["series_L"] * 0.3 / wm)
    return f, S.add_noise(Z, case["noise"], case["seed"])


def _vector(res):
    from pyimpspec.circuit.elements import Capacitor, Inductor, KramersKronigAdmittanceRC, KramersKronigRC, Resistor

    els = res.circuit.get_elements()
    out = {"R": [e.get_value("R") for e in els if isinstance(e, Resistor)][0]}
    ks = [e for e in els if isinstance(e, (KramersKronigRC, KramersKronigAdmittanceRC))]
    out["k"] = np.array([k.get_value("C") if isinstance(k, KramersKronigAdmittanceRC) else k.get_value("R") for k in ks])
    cs = [e.get_value("C") for e in els if isinstance(e, Capacitor)]
    ls = [e.get_value("L") for e in els if isinstance(e, Inductor)]
    out["C"] = cs[0] if cs else None
    out["L"] = ls[0] if ls else None
    return out


def _run(case, f, Z):
    from pyimpspec import DataSet, perform_kramers_kronig_test

    return perform_kramers_kronig_test(
        DataSet(f, Z), test=case["test"], num_RC=case["num_RC"], add_capacitance=case["addC"], add_inductance=case["addL"],
        admittance=case["admittance"], log_F_ext=case["log_F_ext"], num_F_ext_evaluations=0, num_procs=1, timeout=60,
    )


def _close_res(a, b, scale):
    return bool(np.all(np.abs(a - b) <= 1e-5 + 1e-4 * scale))


def body(ctx, case):
    from pyimpspec.exceptions import KramersKronigError

    f, Z = spectrum(case)
    adm = case["admittance"]
    labels = {f"{case['test']}/{'Y' if adm else 'Z'}"}
    try:
        base = _run(case, f, Z)
    except (KramersKronigError, ValueError, np.linalg.LinAlgError) as e:
        ctx.record(case, False, labels, "baseline refused: " + type(e).__name__)
        return
    r0 = np.asarray(base.residuals)
    scale = float(np.max(np.abs(r0)))
    v0 = _vector(base)
    tc0 = np.asarray(base.get_time_constants())
    kZ, kf = case["kZ"], case["kf"]

    is_cnls = case["test"] == "cnls"
    # rounding allowance: the matrix-inversion 'complex' test solves the normal equations with an explicit inverse (error
    # ~ eps cond^2 of the equilibrated design matrix), everything else solves the design matrix itself (~ eps cond); the
    # property is stated for well-conditioned num_RC, so this only matters beyond cond ~ 1e5 (observed: cond 9.8e5, a
    # frequency factor of 1.0000001 moves the residuals by 1.7e-5)
    extra = 0.0
    if not is_cnls:
        kind = case["test"].replace("-inv", "")
        X = 1 / Z if adm else Z
        # the real-part fit does not contain the (purely imaginary) capacitance and inductance columns
        has_C = case["addC"] and kind != "real"
        has_L = (True if case["test"].endswith("-inv") else case["addL"]) and kind != "real"
        cond = S.kk_design_cond(f, S.kk_taus(f, case["num_RC"], case["log_F_ext"]), has_C, has_L, adm, X, kind)
        extra = EPS * cond * cond if case["test"] == "complex-inv" else 10 * EPS * cond
        extra = min(extra, 1e-2)
        if cond > 1e5:
            labels.add("cond>1e5")

    class _Route:
        """All unit-scaling clauses of the cnls implementation are one clause (one known finding, F38)."""

        def check(self, cond, clause, c, detail=""):
            return ctx.check(cond, "cnls-invariant-under-units" if is_cnls else clause, c, detail)

    route = _Route()

    def identity(tag, res):
        chi = float(np.sum(np.abs(np.asarray(res.residuals)) ** 2))
        ctx.check(abs(res.pseudo_chisqr - chi) <= 1e-9 * max(chi, 1e-300), "chisqr-is-sum-of-squared-residuals", case, f"{tag}: pseudo_chisqr {res.pseudo_chisqr!r} vs sum |residuals|^2 {chi!r}")

    identity("baseline", base)

    def compare(tag, res, sZ, sf):
        identity(tag, res)
        r = np.asarray(res.residuals)
        dev = float(np.max(np.abs(r - r0)))
        ctx.observe(f"residual-change/{tag}", dev / max(scale, 1e-300))
        ok = route.check(_close_res(r, r0, scale) or dev <= extra, f"residuals-invariant:{tag}", case, f"{sorted(labels)}: relative residuals changed by {dev:.3e} (max |residual| {scale:.3e})")
        ok &= route.check(abs(res.pseudo_chisqr - base.pseudo_chisqr) <= (1e-4 + 2 * extra / max(scale, 1e-300)) * base.pseudo_chisqr + 1e-18, f"chisqr-invariant:{tag}", case,
                        f"pseudo chi-squared {base.pseudo_chisqr:.6e} -> {res.pseudo_chisqr:.6e}")
        tc = np.asarray(res.get_time_constants())
        ok &= route.check(tc.shape == tc0.shape and bool(np.all(np.abs(tc * sf - tc0) <= 1e-11 * tc0)), f"time-constants-rescale:{tag}", case, f"time constants {tc[:3]} vs {tc0[:3]}/k_f")
        # parameters: R, R_k ~ k_Z ; C_k, C ~ 1/(k_Z k_f) ; L ~ k_Z / k_f   (in the units of the fitted representation)
        v = _vector(res)
        if ok:
            coef_scale = (1 / (sZ * sf)) if adm else sZ  # C_k in Y mode, R_k in Z mode
            k0, k1 = v0["k"], v["k"] / coef_scale
            # compare as model contributions at mid band, where every coefficient has the unit of the immittance
            w0 = 2 * math.pi * math.sqrt(f.max() * f.min())
            c0 = k0 * (w0 if adm else 1.0)
            c1 = k1 * (w0 if adm else 1.0)
            ref = max(float(np.max(np.abs(c0))), abs(1 / v0["R"] if adm else v0["R"]))
            # the R_k|C_k of neighbouring time constants are strongly anti-correlated: only their effect on the model is
            # determined, which the residual clause already compares; here gross unit errors are looked for
            route.check(abs(v["R"] / sZ - v0["R"]) <= 1e-3 * max(abs(v0["R"]), 1e-300) or abs((1 / v["R"]) * sZ - 1 / v0["R"]) <= 1e-3 * ref, f"parameters-rescale:{tag}", case,
                      f"series/parallel resistance {v0['R']!r} -> {v['R']!r} (expected x{sZ!r})")
            route.check(float(np.max(np.abs(c1 - c0))) <= 1e-2 * ref, f"parameters-rescale:{tag}", case, f"R_k|C_k do not rescale: {k0[:3]} -> {v['k'][:3]} (expected x{coef_scale!r})")
            if v0["C"] is not None and abs(v0["C"]) < 1e40 and abs(v["C"]) < 1e40:
                a, b = 1 / v0["C"], (1 / v["C"]) / (sZ * sf)
                route.check(abs(a - b) <= 1e-2 * max(abs(a), ref * (1 if adm else w0)) or abs(v["C"] * sZ * sf - v0["C"]) <= 1e-2 * abs(v0["C"]), f"parameters-rescale:{tag}", case,
                          f"capacitance {v0['C']!r} -> {v['C']!r} (expected x{1 / (sZ * sf)!r})")
            if v0["L"] is not None and abs(v0["L"]) < 1e17 and abs(v["L"]) < 1e17:
                a, b = v0["L"], v["L"] / (sZ / sf)
                route.check(abs(a - b) <= 1e-2 * max(abs(a), (ref / w0) if not adm else 0.0) or abs(1 / a - 1 / b) <= 1e-2 * ref / w0 * (w0 * w0 if adm else 1), f"parameters-rescale:{tag}", case,
                          f"inductance {v0['L']!r} -> {v['L']!r} (expected x{sZ / sf!r})")

    try:
        compare("Z", _run(case, f, Z * kZ), kZ, 1.0)
        labels.add("scale:Z")
        compare("f", _run(case, f * kf, Z), 1.0, kf)
        labels.add("scale:f")
        compare("Zf", _run(case, f * kf, Z * kZ), kZ, kf)
    except (KramersKronigError, ValueError, np.linalg.LinAlgError) as e:
        ctx.fail("scaled-spectrum-refused", case, f"baseline accepted but a rescaled copy raised {type(e).__name__}: {e}")
    # reversal: the constructor normalises the order, so the analysis must see identical arrays
    rev = _run(case, f[::-1].copy(), Z[::-1].copy())
    same = np.array_equal(np.asarray(rev.residuals), r0) and rev.pseudo_chisqr == base.pseudo_chisqr and rev.circuit.to_string(17) == base.circuit.to_string(17)
    ctx.check(same, "order-reversal-identical", case, f"reversed input changes the result: chi2 {base.pseudo_chisqr!r} -> {rev.pseudo_chisqr!r}")
    labels.add("reversal")
    ctx.record(case, True, sorted(labels))


def parts(ctx):
    return [
        Part("linear", body, strategy=case_strategy(), n={"quick": 8000, "thorough": 60000}, budget_s={"quick": 150, "thorough": 1800}),
        Part("cnls", body, strategy=case_strategy(["cnls"]), n={"quick": 16, "thorough": 200}, budget_s={"quick": 120, "thorough": 1200}, case_timeout_s=120),
    ]
