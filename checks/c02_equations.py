"""C02 — the numerically computed impedance equals the documented closed-form equation
(DESIGN.md section 4, C02).

Oracle: the class's documented equation string (`_equation`, from which the docstring's LaTeX and `to_sympy`
are generated) is parsed with sympy and evaluated by *us* in mpmath at 40 digits; the numeric path of the
library (`_impedance`, numpy complex128) shares no code with that evaluation.
"""
from __future__ import annotations

import itertools
import math
from vlib.timeouts import TimeLimit, time_limit

import mpmath as mp
import numpy as np
from hypothesis import strategies as st

from vlib import gen_circuits as G
from vlib import mpeval as M
from vlib.runner import Part

PROPERTY = "C02"
RULE = (
    "Every class in get_elements(private=True) x Hypothesis-generated parameter vectors inside the class's limit box "
    "(log-uniform over 12 decades around the default, 20% over the whole box, box corners, exponents over (0,1]) x 8 "
    "frequencies log-uniform in 1e-6..1e9 Hz: get_impedances vs our 40-digit mpmath evaluation of the documented equation "
    "string and of to_sympy(substitute=True); random circuits <= 6 leaves over all element types: Circuit.to_sympy("
    "substitute=True) vs get_impedances; all 36 {finite,short}^2 x {finite,short,open}^2 configurations of the general "
    "transmission line's sub-circuits (exhaustive, random contents): numeric and symbolic paths give the same verdict "
    "(value or NotImplementedError) and the same values; 0 Hz / infinite-frequency limits vs mpmath at f = 1e-/+20000. "
    "Non-trivial: the library returned finite values and the reference is finite (over/underflow of the double-precision "
    "path is the library's own ImpedanceError refusal); distinct by SHA-1 of the case."
)
ASSUMPTIONS = [
    "sympy's parser for the equation strings and mpmath's elementary functions are trusted",
    "tolerance |dZ| <= 1e-9*|Z_ref| (+1e-300); circuits: 1e-9*kappa with kappa the cancellation factor of the composition",
    "a raised ImpedanceError/InfiniteLimit/NotImplementedError is a refusal, not a report",
    "the Tlm branch formulas for open/short sub-circuits are compared between the numeric and the symbolic path only "
    "(the property's wording); whether they are the continuous limit of the general equation is not claimed (DESIGN.md section 7)",
]
SHARDS = {"quick": 8, "thorough": 16}
FLOOR = 0.5
TOL = 1e-9


def _symbols():
    return sorted(s for s, c in G.element_classes(private=True).items() if not G.is_container(c) and not s.startswith("X"))


REQUIRED_CLASSES = {
    "quick": ["clamped-then-exported-again", "tlm:value", "tlm:both-refuse", "limit:0Hz-finite", "limit:inf-finite", "circuit:container"],
    "thorough": ["tlm:value", "tlm:both-refuse", "limit:0Hz-finite", "limit:inf-finite", "circuit:container"],
}


# ---------------------------------------------------------------------------- strategies
def _freqs(n):
    return st.lists(st.floats(-6, 9, allow_nan=False).map(lambda e: 10.0**e), min_size=n, max_size=n)


@st.composite
def element_case(draw):
    sym = draw(st.sampled_from(_symbols()))
    cls = G.element_classes()[sym]
    info = G.class_info(cls)
    mode = draw(st.integers(0, 9))
    params = {}
    for k, i in info.items():
        if mode == 0:
            # a single parameter off its default: factors that are 1 at the defaults become visible one at a time
            params[k] = i["v"]
        elif mode == 1:
            # corners of the limit box: exponents at exactly 1 (or small), the others at the default or decades away
            if i["lo"] >= 0 and i["hi"] <= 1.0:
                params[k] = draw(st.sampled_from([1.0, 1.0, 0.05, 0.5]))
            else:
                params[k] = min(max(i["v"] * draw(st.sampled_from([1.0, 1e-3, 1e3, 1e-6, 1e6])), i["lo"]), i["hi"])
        else:
            params[k] = draw(G.value_strategy(i, wide=(mode >= 8)))
    if mode == 0:
        k = draw(st.sampled_from(sorted(info)))
        params[k] = draw(G.value_strategy(info[k], wide=False))
    return {"sym": sym, "params": params, "f": draw(_freqs(6)) + [1e9, 1e-6], "clamp": draw(st.booleans())}


@st.composite
def circuit_case(draw):
    syms = sorted(G.element_classes(private=True))
    syms = [s for s in syms if not s.startswith("X")]
    ast = draw(G.st_tree(syms + ["R", "C", "Q", "Tlm"] * 2, max_leaves=draw(st.sampled_from([2, 4, 6])), state="values"))
    return {"ast": ast, "f": draw(_freqs(4))}


@st.composite
def _small_sub(draw):
    t = draw(G.st_tree(["R", "C", "Q", "R"], max_leaves=2, state="values", canonical=True))
    if draw(st.integers(0, 2)):
        # moderate values (within two decades of the defaults) so that cosh/sinh of L/lambda stay finite
        for e in G.ast_elements(t):
            info = G.class_info(G.element_classes()[e[1]])
            for k, pv in e[2].items():
                d = info[k]["v"]
                if k != "n" and "v" in pv and not (d * 1e-2 <= pv["v"] <= d * 1e2):
                    pv["v"] = d * 10.0 ** draw(st.floats(-2, 2))
    return t


def _tlm_case_strategy(cfg):
    @st.composite
    def s(draw):
        subs = {}
        for key, kind in zip(("X_1", "X_2", "Z_A", "Z_B"), cfg):
            subs[key] = draw(_small_sub()) if kind == "finite" else kind
        subs["Zeta"] = draw(_small_sub())
        # the pore length is 1 by default (and in every stored example): draw it away from 1 except in one case out of eight
        L = 1.0 if draw(st.integers(0, 7)) == 0 else 10.0 ** (draw(st.sampled_from([-1, 1])) * draw(st.floats(0.05, 2)))
        return {"cfg": list(cfg), "ast": ["E", "Tlm", {"L": {"v": L}}, "", subs], "f": draw(_freqs(4))}

    return s()


TLM_CONFIGS = list(itertools.product(["finite", "short"], ["finite", "short"], ["finite", "short", "open"], ["finite", "short", "open"]))


@st.composite
def tlm_case(draw):
    cfg = draw(st.sampled_from(TLM_CONFIGS))
    return draw(_tlm_case_strategy(cfg))


@st.composite
def limit_case(draw):
    if draw(st.integers(0, 2)) == 0:
        syms = [s for s in sorted(G.element_classes(private=True)) if not s.startswith("X") and s != "Tlm"]
        ast = draw(G.st_tree(syms + ["R", "C", "L", "Q"] * 3, max_leaves=3, state="values"))
        return {"kind": "circuit", "ast": ast}
    c = draw(element_case())
    return {"kind": "element", "sym": c["sym"], "params": c["params"]}


# ---------------------------------------------------------------------------- helpers
_Timeout = TimeLimit


def _with_timeout(seconds, fn):
    with time_limit(seconds):
        return fn()


def _lib_Z(obj, f):
    from pyimpspec.exceptions import ImpedanceError

    try:
        with np.errstate(all="ignore"):
            return obj.get_impedances(np.array(f, dtype=float)), None
    except ImpedanceError as e:
        return None, "refused:" + type(e).__name__
    except NotImplementedError as e:
        return None, "refused:NotImplementedError"


def pred_tlm_char_freq(case):
    """Tlmbo/bq/bs/no/nq/ns with a characteristic frequency 1/(R_i Y L^2)^(1/n) beyond 1e+-230 (before or after the clamping step)."""
    if not isinstance(case, dict) or not str(case.get("sym", "")).startswith("Tlm") or "params" not in case:
        return False
    p = case["params"]
    if not all(k in p for k in ("R_i", "Y", "L", "n")):
        return False
    variants = [dict(p)]
    k = sorted(p)[0]
    if case.get("clamp"):
        variants.append(dict(p, **{k: 0.5 * p[k]}))
    for q in variants:
        try:
            lg = math.log10(q["R_i"] * q["Y"] * q["L"] ** 2) / q["n"]
        except (ValueError, ZeroDivisionError, OverflowError):
            return True
        if abs(lg) > 230:
            return True
    return False


PREDICATES = {"tlm-characteristic-frequency-beyond-1e230": pred_tlm_char_freq}


def _compare(ctx, case, clause, Z, ref, tol, what, slack=None):
    """|Z - ref| <= tol*|ref| + slack + 1e-300; `slack[i]` is the backward-error allowance of point i."""
    worst = 0.0
    ok = True
    for i, (zl, zr) in enumerate(zip(Z, ref)):
        with mp.workdps(M.DPS):
            d = abs(mp.mpc(complex(zl)) - zr)
            bound = tol * abs(zr) + mp.mpf("1e-300") + (slack[i] if slack is not None else 0)
            r = float(d / abs(zr)) if abs(zr) > mp.mpf("1e-280") else 0.0
        worst = max(worst, r)
        if d > bound:
            ok = False
            ctx.fail(clause, case, f"{what}: f={case['f'][i] if 'f' in case else '?'!r}: library {complex(zl)!r} vs reference {complex(zr)!r} (rel {r:.3e}, allowed {float(bound / abs(zr)) if zr != 0 else float(bound):.3e})")
            break
    ctx.observe(clause + ":rel-err", worst)
    return ok


ULP = 2.0**-52


def _slack_equation(equation, params, freqs, ref):
    """Backward-error allowance: how much the exact equation moves when each input (f and every parameter) is
    perturbed by one ulp, times 64. A double-precision evaluation cannot be asked for more (tan/cot of 1e9 rad)."""
    out = [mp.mpf(0)] * len(freqs)
    with mp.workdps(M.DPS):
        try:
            pert = [mp.mpf(f) * (1 + mp.mpf(ULP)) for f in freqs]
            z = M.eval_equation(equation, params, pert)
            out = [o + abs(a - b) for o, a, b in zip(out, z, ref)]
            for k in params:
                if not math.isfinite(params[k]) or params[k] == 0:
                    continue
                p2 = {kk: (mp.mpf(v) * (1 + mp.mpf(ULP)) if kk == k else v) for kk, v in params.items()}
                z = M.eval_equation(equation, p2, freqs)
                out = [o + abs(a - b) for o, a, b in zip(out, z, ref)]
        except M.RefNotFinite:
            pass
        return [64 * o for o in out]


def _slack_expr(expr, freqs, ref):
    with mp.workdps(M.DPS):
        try:
            pert = [mp.mpf(f) * (1 + mp.mpf(ULP)) for f in freqs]
            z = M.eval_expr(expr, pert)
            return [64 * abs(a - b) for a, b in zip(z, ref)]
        except M.RefNotFinite:
            return [mp.mpf(0)] * len(freqs)


# ---------------------------------------------------------------------------- bodies
def body_element(ctx, case):
    cls = G.element_classes()[case["sym"]]
    el = cls()
    el.set_values(**case["params"])
    Z, why = _lib_Z(el, case["f"])
    if Z is None:
        ctx.record(case, False, ["el:" + case["sym"]], why)
        return
    try:
        ref = M.eval_equation(cls._equation, case["params"], case["f"])
    except M.RefNotFinite:
        ctx.record(case, False, ["el:" + case["sym"]], "reference not finite")
        return
    slack = _slack_equation(cls._equation, case["params"], case["f"], ref)
    _compare(ctx, case, "numeric-equals-documented-equation", Z, ref, TOL, case["sym"], slack)
    # the symbolic export with values substituted is the same function
    try:
        expr = el.to_sympy(substitute=True)
        ref2 = M.eval_expr(expr, case["f"])
    except M.RefNotFinite:
        ref2 = None
    if ref2 is not None:
        _compare(ctx, case, "numeric-equals-to_sympy", Z, ref2, TOL, case["sym"] + " to_sympy(substitute=True)", slack)
    labels = ["el:" + case["sym"], "nt:" + case["sym"]]
    # history: a limit moved past the current value clamps the value; every representation must follow
    k = sorted(case["params"])[0]
    v = case["params"][k]
    if case.get("clamp") and math.isfinite(v) and v > 0 and el.get_lower_limit(k) < 0.5 * v:
        el.set_upper_limits(k, 0.5 * v)
        p2 = el.get_values()
        Z2, why2 = _lib_Z(el, case["f"])
        if Z2 is not None:
            try:
                ref_eq = M.eval_equation(cls._equation, p2, case["f"])
                ref_sy = M.eval_expr(el.to_sympy(substitute=True), case["f"])
                slack2 = _slack_equation(cls._equation, p2, case["f"], ref_eq)
                _compare(ctx, case, "numeric-equals-documented-equation", Z2, ref_eq, TOL, case["sym"] + " after a clamping limit", slack2)
                _compare(ctx, case, "numeric-equals-to_sympy", Z2, ref_sy, TOL, case["sym"] + " to_sympy(substitute=True) after a clamping limit", slack2)
                labels.append("clamped-then-exported-again")
            except M.RefNotFinite:
                pass
    ctx.record(case, True, labels)


def body_circuit(ctx, case):
    ast = case["ast"]
    circuit = G.build_objects(ast)
    labels = []
    els = G.ast_elements(ast)
    if any(e[4] is not None for e in els):
        labels.append("circuit:container")
    Z, why = _lib_Z(circuit, case["f"])
    if Z is None:
        ctx.record(case, False, labels, why)
        return
    kappa = 1.0
    try:
        for f in case["f"]:
            _, k = G.ref_Z(G.top_connection(circuit), f)
            kappa = max(kappa, k)
    except G.RefAbort:
        pass
    if not math.isfinite(kappa) or kappa > 1e6:
        ctx.record(case, False, labels, "cancellation-dominated")
        return
    try:
        expr = circuit.to_sympy(substitute=True)
        ref = M.eval_expr(expr, case["f"])
    except M.RefNotFinite:
        ctx.record(case, False, labels, "reference not finite")
        return
    except NotImplementedError:
        # an unsupported Tlm configuration hidden behind a shorted parallel branch: the symbolic side refuses
        ctx.record(case, False, labels, "symbolic side refused: NotImplementedError")
        return
    _compare(ctx, case, "circuit-numeric-equals-to_sympy", Z, ref, TOL * kappa, "Circuit.to_sympy(substitute=True)", _slack_expr(expr, case["f"], ref))
    ctx.record(case, len(els) >= 2, labels + ["circuit"], "single element")


def body_tlm(ctx, case):
    el = G.build_element(case["ast"])
    cfg = "/".join(case["cfg"])
    from pyimpspec.exceptions import ImpedanceError

    num = sym = None
    num_exc = sym_exc = None
    try:
        with np.errstate(all="ignore"):
            num = el.get_impedances(np.array(case["f"], dtype=float))
    except NotImplementedError as e:
        num_exc = "NotImplementedError:" + str(e)
    except ImpedanceError as e:
        ctx.record(case, False, ["tlm:numeric-impedance-error"], "refused:" + type(e).__name__)
        return
    try:
        sym = el.to_sympy(substitute=True)
    except NotImplementedError as e:
        sym_exc = "NotImplementedError:" + str(e)
    if num_exc or sym_exc:
        ctx.check(
            num_exc == sym_exc, "tlm-same-verdict", case,
            f"configuration {cfg}: numeric path -> {num_exc or 'values'}, symbolic path -> {sym_exc or 'expression'}",
        )
        ctx.record(case, True, ["tlm:both-refuse", "tlm-cfg:" + cfg], key=None)
        return
    try:
        ref = M.eval_expr(sym, case["f"])
    except M.RefNotFinite:
        ctx.record(case, False, ["tlm-cfg:" + cfg], "reference not finite")
        return
    # cosh/sinh of large arguments amplify the rounding of the 15-digit sub-circuit values printed into the expression
    _compare(ctx, case, "tlm-numeric-equals-symbolic", num, ref, 1e-7, "Tlm " + cfg, _slack_expr(sym, case["f"], ref))
    ctx.record(case, True, ["tlm:value", "tlm-cfg:" + cfg])


def tlm_enum(ctx):
    """Every one of the 36 configurations, contents drawn deterministically from the seed (exhaustive over configs)."""
    import random

    from hypothesis import find  # noqa: F401  (strategies are drawn with .example-free explicit seeds below)

    reps = ctx.q(10, 30)
    for ci, cfg in enumerate(TLM_CONFIGS):
        for r in range(reps):
            yield {"cfg_index": ci, "rep": r}


def body_tlm_enum(ctx, item):
    """Draw the contents for configuration item['cfg_index'] with Hypothesis, seeded from (seed, cfg, rep)."""
    from hypothesis import given, seed as hseed, settings, HealthCheck, Phase

    from vlib.runner import derive_seed

    cfg = TLM_CONFIGS[item["cfg_index"]]
    got = []

    @hseed(derive_seed(ctx.seed, "C02-tlm", item["cfg_index"], item["rep"]))
    # Hypothesis always starts with the simplest example (all defaults): take the fourth one
    @settings(max_examples=4, database=None, deadline=None, phases=[Phase.generate], suppress_health_check=list(HealthCheck))
    @given(_tlm_case_strategy(cfg))
    def t(case):
        got.append(case)

    t()
    if got:
        body_tlm(ctx, got[-1])


def body_limit(ctx, case):
    from pyimpspec.exceptions import ImpedanceError

    if case["kind"] == "element":
        cls = G.element_classes()[case["sym"]]
        obj = cls()
        obj.set_values(**case["params"])
        what = case["sym"]
    else:
        obj = G.build_objects(case["ast"])
        what = "circuit"
    labels = []
    judged = False
    for name, fval, fmp in (("0Hz", 0.0, mp.mpf("1e-20000")), ("inf", math.inf, mp.mpf("1e20000"))):
        try:
            L0 = _with_timeout(6, lambda: obj.get_impedances(np.array([fval]))[0])
        except _Timeout:
            ctx.inconclusive["limit:sympy-timeout"] += 1
            continue
        except (ImpedanceError, NotImplementedError) as e:
            labels.append(f"limit:{name}-refused")
            continue
        except Exception as e:  # noqa: BLE001  sympy could not decide the limit: not a reported finite limit
            labels.append(f"limit:{name}-undecided:{type(e).__name__}")
            continue
        L0 = complex(L0)
        try:
            if case["kind"] == "element":
                zr = M.eval_equation(cls._equation, case["params"], [fmp], dps=60)[0]
            else:
                zr = _with_timeout(6, lambda: M.eval_expr(obj.to_sympy(substitute=True), [fmp], dps=60)[0])
        except (M.RefNotFinite, _Timeout):
            labels.append(f"limit:{name}-reference-not-finite")
            continue
        # the reference must itself have converged at f = 1e+-20000 (exponents such as b - 1 = -1e-5 approach their
        # limit only at f = 1e+-10^6 and beyond): compare with a second, far more extreme frequency
        try:
            fmp2 = mp.mpf(10) ** (-2000000 if fval == 0 else 2000000)
            if case["kind"] == "element":
                zr2 = M.eval_equation(cls._equation, case["params"], [fmp2], dps=60)[0]
            else:
                zr2 = _with_timeout(20, lambda: M.eval_expr(obj.to_sympy(substitute=True), [fmp2], dps=60)[0])
            with mp.workdps(60):
                if abs(zr2 - zr) > mp.mpf("1e-7") * max(abs(zr2), abs(zr), abs(mp.mpc(L0))):
                    labels.append(f"limit:{name}-reference-not-converged")
                    continue
        except (M.RefNotFinite, _Timeout):
            labels.append(f"limit:{name}-reference-not-finite")
            continue
        judged = True
        labels.append(f"limit:{name}-finite")
        try:
            if case["kind"] == "element":
                z1 = M.eval_equation(cls._equation, case["params"], [1.0])[0]
            else:
                z1 = M.eval_expr(obj.to_sympy(substitute=True), [1.0])[0]
        except M.RefNotFinite:
            z1 = 0
        with mp.workdps(60):
            d = float(abs(mp.mpc(L0) - zr))
            # a limit of exactly 0 is approached only in absolute terms: scale by the size of the function at 1 Hz too
            scale = max(abs(L0), float(abs(zr)), float(abs(z1)))
        ctx.check(
            d <= 1e-6 * scale + 1e-300, "limit-is-continuous-extension", dict(case, f=[fval]),
            f"{what}: reported f->{name} limit {L0!r}, equation at f=1e{'-' if fval == 0 else '+'}20000 gives {complex(zr)!r}",
        )
    ctx.record(case, judged, labels, "no finite limit reported")


def parts(ctx):
    return [
        Part("elements", body_element, strategy=element_case(), n={"quick": 4800, "thorough": 90000}, budget_s={"quick": 90, "thorough": 1500}, case_timeout_s=30),
        Part("circuits", body_circuit, strategy=circuit_case(), n={"quick": 240, "thorough": 8000}, budget_s={"quick": 90, "thorough": 1500}, case_timeout_s=20),
        Part("tlm-configs", body_tlm_enum, items=tlm_enum, exhaustive=True, budget_s={"quick": 90, "thorough": 900}, case_timeout_s=20),
        Part("tlm-random", body_tlm, strategy=tlm_case(), n={"quick": 320, "thorough": 6000}, budget_s={"quick": 90, "thorough": 900}, case_timeout_s=20),
        Part("limits", body_limit, strategy=limit_case(), n={"quick": 128, "thorough": 4000}, budget_s={"quick": 80, "thorough": 1500}, case_timeout_s=40),
    ]
