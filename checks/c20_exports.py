"""C20 — symbolic, LaTeX and diagram exports exist for every circuit that can be simulated
(DESIGN.md section 4, C20)."""
from __future__ import annotations

import re

import numpy as np
from hypothesis import strategies as st

from vlib import gen_circuits as G
from vlib.runner import Part, derive_seed

PROPERTY = "C20"
RULE = (
    "Every series/parallel shape up to 4 (quick) / 5 (thorough) leaves with leaves assigned from a seed-rotated palette of all "
    "registered element types (labels of the identifier-like and of the rich class, containers incl. nested ones), plus "
    "Hypothesis-generated random circuits up to 14 leaves; only circuits whose get_impedances succeeds are judged. Oracle: "
    "to_sympy(), to_sympy(substitute=True), to_latex(), to_circuitikz(running, hide_labels, custom_labels, terminal labels), "
    "to_drawing(...), to_stack() do not raise; free symbols after substitution are a subset of {f}, without substitution a "
    "subset of f plus one variable per (element, parameter) and equal to it for circuits without containers; CircuiTikZ text "
    "has balanced begin/end and brackets, every line a \\draw ...; one component per element of the circuit's connections "
    "(container = 1), labelled as the circuit names it, both terminals once; the schemdraw drawing has the same number of "
    "labelled components; to_stack brackets balance and list the same elements. Non-trivial: >= 3 elements and >= 1 parallel "
    "connection; distinct by SHA-1 of the case."
)
ASSUMPTIONS = [
    "a circuit 'can be simulated' when get_impedances at three finite frequencies returns values",
    "with container elements a branch formula may drop a sub-circuit's variables (e.g. a shorted boundary), so only 'no foreign variable' is demanded there",
]
SHARDS = {"quick": 8, "thorough": 16}
FLOOR = 0.4
REQUIRED_CLASSES = {t: ["container", "rich-label", "nested-container", "depth>=3", "custom-labels", "edited-then-exported-again"] for t in ("quick", "thorough")}
F = np.array([1e4, 10.0, 1e-2])


def _symbols():
    return sorted(s for s in G.element_classes(private=True) if not s.startswith("X"))


@st.composite
def random_case(draw):
    syms = _symbols() + ["R", "C", "Q", "W"] * 3 + ["Tlm"] * 2
    ast = draw(G.st_tree(syms, max_leaves=draw(st.sampled_from([3, 6, 10, 14])), min_leaves=1, state="defaults", labels=draw(st.sampled_from(["none", "ident", "rich", "mixed"]))))
    return {"ast": ast, "opts": draw(_opts())}


@st.composite
def _opts(draw):
    return {
        "running": draw(st.booleans()),
        "hide": draw(st.integers(0, 4)) == 0,
        "custom": draw(st.integers(0, 3)) == 0,
        "left": draw(st.sampled_from(["", "", "WE", "a_{1}"])),
        "right": draw(st.sampled_from(["", "", "CE+RE"])),
        "node_height": draw(st.sampled_from([1.5, 1.0, 2.25])),
        "node_width": draw(st.sampled_from([3.0, 2.0, 4.5])),
        "edit": draw(st.one_of(st.none(), st.tuples(st.sampled_from(["swap", "replace", "sub"]), st.integers(0, 50), st.integers(0, 50), st.integers(0, 50)).map(list))),
    }


def palette(seed):
    E = lambda sym, label="", subs=None: ["E", sym, {}, label, subs]
    sub = ["S", [E("R"), ["P", [E("C", "dl"), E("Q")]]]]
    items = [E(s) for s in _symbols()] + [
        E("R", "sol"), E("C", "x y"), E("Q", "a-b"), E("W", "dl,1"), E("R", "E"), E("L", "pi"),
        E("Tlm", "", {"X_1": sub, "Zeta": ["S", [E("Q", "z")]]}), E("Tlm", "p{1}", {"Z_A": ["S", [E("Tlm")]], "Z_B": "short"}),
    ]
    k = seed % len(items)
    return items[k:] + items[:k]


def shape_cases(ctx):
    pal = palette(ctx.seed)
    idx = 0
    for n in range(1, ctx.q(4, 5) + 1):
        for shape in G.enumerate_shapes(n, unary=False):
            for r in range(ctx.q(1, 3)):
                leaves = [pal[(idx * 3 + i * 5 + r * 7) % len(pal)] for i in range(n)]
                idx += 1
                o = idx
                yield {"ast": G.shape_to_ast(shape, leaves), "opts": {"running": bool(o & 1), "hide": o % 7 == 0, "custom": o % 5 == 0, "left": "WE" if o % 3 == 0 else "",
                                                                   "right": "CE" if o % 4 == 0 else "", "node_height": 1.5, "node_width": 3.0,
                                                                   "edit": [["swap", "replace", "sub"][o % 3], o, o // 3, o // 7] if o % 2 else None}}


def _balanced(text, pairs=("()", "[]", "{}")):
    for o, c in pairs:
        depth = 0
        for ch in text:
            if ch == o:
                depth += 1
            elif ch == c:
                depth -= 1
                if depth < 0:
                    return False
        if depth != 0:
            return False
    return True


def body(ctx, case):
    from pyimpspec.circuit.base import Container
    from pyimpspec.exceptions import ImpedanceError

    ast, opts = case["ast"], case["opts"]
    circuit = G.build_objects(ast)
    labels = set()
    a_els = G.ast_elements(ast)
    if any(e[4] is not None for e in a_els):
        labels.add("container")
    if any(e[4] and any(isinstance(v, list) and any(x[4] is not None for x in G.ast_elements(v)) for v in e[4].values()) for e in a_els):
        labels.add("nested-container")
    if any(e[3] and not e[3].replace("_", "").isalnum() for e in a_els):
        labels.add("rich-label")
    if G.ast_depth(ast) >= 3:
        labels.add("depth>=3")
    try:
        with np.errstate(all="ignore"):
            circuit.get_impedances(F)
    except (ImpedanceError, NotImplementedError) as e:
        ctx.record(case, False, labels, "cannot be simulated: " + type(e).__name__)
        return
    els = G.all_elements(circuit)
    drawn = circuit.get_elements(recursive=True)  # elements of the circuit's connections (nested ones are inside containers)
    has_container = any(isinstance(e, Container) for e in els)
    run = circuit.generate_element_identifiers(running=True)
    per = circuit.generate_element_identifiers(running=False)

    def attempt(what, fn):
        from vlib.timeouts import TimeLimit

        try:
            return fn()
        except TimeLimit:
            raise
        except Exception as e:  # noqa: BLE001
            ctx.crash("export-raises:" + what, case, e)
            return None

    # --- symbolic
    expr = attempt("to_sympy", lambda: circuit.to_sympy())
    if expr is not None:
        free = {str(s) for s in expr.free_symbols}
        expect = set()
        twice = False
        for e in els:
            for k in e.get_values():
                name = f"{k}_{e.get_label()}" if e.get_label() else f"{k}_{run[e]}"
                twice |= name in expect
                expect.add(name)
        if has_container or twice:
            ctx.check(free - {"f"} <= expect, "sympy-variables", case, f"foreign variables {sorted(free - {'f'} - expect)}")
        else:
            ctx.check(free - {"f"} == expect, "sympy-variables", case, f"free symbols {sorted(free)}; expected f + {sorted(expect)}")
    sub = attempt("to_sympy(substitute=True)", lambda: circuit.to_sympy(substitute=True))
    if sub is not None:
        free = {str(s) for s in sub.free_symbols}
        ctx.check(free <= {"f"}, "sympy-substituted-only-f", case, f"free symbols after substitution: {sorted(free)}")
    tex = attempt("to_latex", lambda: circuit.to_latex())
    if tex is not None:
        ctx.check(isinstance(tex, str) and tex.startswith("Z = ") and _balanced(tex.replace("\\left", "").replace("\\right", ""), ("{}",)), "latex-wellformed", case, f"to_latex: {tex[:200]!r}")

    # --- CircuiTikZ
    custom = None
    if opts["custom"]:
        labels.add("custom-labels")
        custom = {e: f"c_{{{i}}}" for i, e in enumerate(drawn) if i % 2 == 0}
    kw = dict(running=opts["running"], hide_labels=opts["hide"], custom_labels=custom, left_terminal_label=opts["left"], right_terminal_label=opts["right"], node_height=opts["node_height"])
    tikz = attempt("to_circuitikz", lambda: circuit.to_circuitikz(node_width=opts["node_width"], **kw))
    if tikz is not None:
        lines = tikz.strip().split("\n")
        ok = lines[0].strip() == r"\begin{circuitikz}" and lines[-1].strip() == r"\end{circuitikz}" and tikz.count(r"\begin{circuitikz}") == 1 and tikz.count(r"\end{circuitikz}") == 1
        ok = ok and all(re.fullmatch(r"\\draw .*;", ln.strip()) for ln in lines[1:-1]) and all(ln.count("$") % 2 == 0 and _balanced(re.sub(r"\$.*?\$", "$$", ln)) for ln in lines[1:-1])  # label text itself is the user's
        ctx.check(ok, "circuitikz-structure", case, f"malformed CircuiTikZ source:\n{tikz[:600]}")
        comps = re.findall(r"to\[(\w+)=\$(.*?)\$\]", tikz)
        ids = run if opts["running"] else per
        want = []
        for e in drawn:
            if opts["hide"]:
                want.append("")
            elif custom is not None and e in custom:
                want.append(custom[e])
            else:
                want.append(f"{e.get_symbol()}_{{\\rm {e.get_label() or ids[e]}}}")
        ctx.check(len(comps) == len(drawn), "circuitikz-one-component-per-element", case, f"{len(comps)} components for {len(drawn)} elements:\n{tikz[:600]}")
        ctx.check(sorted(c[1] for c in comps) == sorted(want), "circuitikz-labels-are-names", case, f"labels {sorted(c[1] for c in comps)} ; expected {sorted(want)}")
        ctx.check(tikz.count("o-") == 1 and tikz.count("-o") == 1, "circuitikz-terminals", case, "terminals are not present exactly once each")
    # --- schemdraw
    drawing = attempt("to_drawing", lambda: circuit.to_drawing(**kw))
    if drawing is not None:
        n_lab = 0
        for el in drawing.elements:
            name = type(el).__name__
            if name in ("Line", "Dot"):
                continue
            n_lab += 1
        ctx.check(n_lab == len(drawn), "drawing-one-component-per-element", case, f"{n_lab} drawn components for {len(drawn)} elements: {[type(e).__name__ for e in drawing.elements]}")
        try:
            import matplotlib.pyplot as plt

            plt.close("all")
        except Exception:  # noqa: BLE001
            pass
    # --- stack
    stack = attempt("to_stack", lambda: circuit.to_stack())
    if stack is not None:
        depth = {"[": 0, "(": 0}
        okb = True
        for tok, _obj in stack:
            if tok in "[(":
                depth[tok] += 1
            elif tok == "]":
                depth["["] -= 1
            elif tok == ")":
                depth["("] -= 1
            okb &= depth["["] >= 0 and depth["("] >= 0
        items = [obj for tok, obj in stack if tok not in "[]()"]
        ctx.check(okb and depth == {"[": 0, "(": 0} and len(items) == len(drawn) and all(any(o is d for d in drawn) for o in items), "stack-wellformed", case, f"to_stack: {[t for t, _ in stack]}")
    # the same Circuit object after an in-place edit that keeps the description code (an element replaced by a copy,
    # two children swapped): every export must still work and name the *current* elements
    if opts.get("edit") and not case.get("_second_round"):
        from checks.c16_identifiers import apply_edit

        done = False
        try:
            done = apply_edit(circuit, opts["edit"])
        except Exception as e:  # noqa: BLE001
            ctx.crash("edit", case, e)
        if done:
            try:
                with np.errstate(all="ignore"):
                    circuit.get_impedances(F)
            except (ImpedanceError, NotImplementedError):
                done = False  # the edit produced a circuit that cannot be simulated (e.g. a Tlm configuration that is refused)
        if done:
            labels.add("edited-then-exported-again")
            drawn2 = circuit.get_elements(recursive=True)
            per2 = circuit.generate_element_identifiers(running=False)
            for what, fn in (("to_sympy", lambda: circuit.to_sympy()), ("to_latex", lambda: circuit.to_latex()), ("to_circuitikz", lambda: circuit.to_circuitikz()), ("to_drawing", lambda: circuit.to_drawing())):
                out = attempt(what + " after an in-place edit", fn)
                if what == "to_circuitikz" and out is not None:
                    comps = sorted(c[1] for c in re.findall(r"to\[(\w+)=\$(.*?)\$\]", out))
                    want = sorted(f"{e.get_symbol()}_{{\\rm {e.get_label() or per2[e]}}}" for e in drawn2)
                    ctx.check(comps == want, "circuitikz-labels-are-names", case, f"after an in-place edit: labels {comps} ; the circuit names its elements {want}")
            try:
                import matplotlib.pyplot as plt

                plt.close("all")
            except Exception:  # noqa: BLE001
                pass
    nontrivial = len(els) >= 3 and G.ast_has(ast, "P")
    ctx.record(case, nontrivial, sorted(labels), "fewer than 3 elements or no parallel connection")


def parts(ctx):
    return [
        Part("shapes-exhaustive", body, items=shape_cases, exhaustive=True, budget_s={"quick": 100, "thorough": 1500}, case_timeout_s=ctx.q(20, 60)),
        Part("random-circuits", body, strategy=random_case(), n={"quick": 400, "thorough": 15000}, budget_s={"quick": 100, "thorough": 1500}, case_timeout_s=ctx.q(20, 60)),
    ]
