"""C17 — results are reproducible and independent of worker scheduling (DESIGN.md section 4, C17).

The harness owns the schedule: multiprocessing.Pool is replaced (module attribute, from the test side) by a pool
that runs the tasks on pickled copies and delivers `imap_unordered` results in a Hypothesis-drawn order; every field
of the result must be bit-identical to the serial reference. Real pools with 2..8 workers are sampled as well.
"""
from __future__ import annotations

import hashlib
import math

import numpy as np
from hypothesis import strategies as st

from vlib import gen_spectra as S
from vlib.fakepool import Schedule, make_pool_class
from vlib.runner import Part

PROPERTY = "C17"
RULE = (
    "Fan-out entry points fit_circuit (lists of methods/weights, with and without constraint variables), perform_zhit with "
    "smoothing/interpolation/window = 'auto', perform_kramers_kronig_test / evaluate_log_F_ext with num_F_ext_evaluations = 10, "
    "the cnls Kramers-Kronig test over an automatic num_RC range, calculate_drt(method='bht') (numpy's global RNG seeded by the "
    "harness: its only seed channel) on Hypothesis-generated small noisy spectra. Schedules: (i) FakePool - tasks run on "
    "pickled copies, imap_unordered results delivered in a drawn permutation; (ii) real multiprocessing pools with 2, 4, 8 "
    "workers; (iii) plain repetition with a different global numpy seed before each repeat and with the same argument objects "
    "re-used. Oracle: a digest of every field of the result (winner labels, all arrays bit for bit, circuit at 17 digits) "
    "equals the serial reference. generate_mock_data: bit-identical for equal seeds, different for different seeds, for all "
    "bundled identifiers. Non-trivial: a delivery order different from submission order, or num_procs > 1."
)
ASSUMPTIONS = [
    "completion order is the only schedule-dependent input of these code paths (pure worker functions, results gathered in the parent); real OS schedules are sampled, not enumerated",
    "time-out driven behaviour (timeout=) is excluded: wall clock is not a correctness signal; differential evolution (num_F_ext_evaluations < 0) is documented as stochastic and not claimed",
    "bht under a real pool is not compared with the serial run (forked workers inherit copies of the global RNG state, so the library offers no seed channel there); it is covered serially and under FakePool",
]
SHARDS = {"quick": 8, "thorough": 16}
FLOOR = 0.4
ENTRIES = ["fit", "fit-constraint", "zhit", "kk-ext", "kk-evaluate", "cnls", "bht"]
REQUIRED_CLASSES = {t: ["entry:" + e for e in ENTRIES] + ["fakepool:permuted", "real-pool", "mock-data"] for t in ("quick", "thorough")}
POOL_MODULES = ["pyimpspec.analysis.fitting", "pyimpspec.analysis.zhit.offset", "pyimpspec.analysis.zhit.reconstruction", "pyimpspec.analysis.kramers_kronig.exploratory", "pyimpspec.analysis.drt.bht"]


@st.composite
def spectrum(draw, nmax=16):
    n = draw(st.integers(10, nmax))
    return {"n": n, "top": draw(st.floats(3, 5)), "decades": draw(st.integers(3, 5)), "R0": draw(st.floats(5, 50)),
            "els": [[draw(st.floats(20, 200)), 10.0 ** draw(st.floats(-4, -1)), draw(st.sampled_from([1.0, 0.85]))] for _ in range(draw(st.integers(1, 2)))],
            "noise": draw(st.sampled_from([0.05, 0.3])), "seed": draw(st.integers(0, 2**31))}


@st.composite
def sched_case(draw, entries=ENTRIES):
    entry = draw(st.sampled_from(entries))
    keys = draw(st.lists(st.lists(st.integers(0, 9), min_size=4, max_size=40), min_size=1, max_size=4))
    # the pool size requested from the library is drawn too: nothing in a result may depend on it
    return {"entry": entry, "spec": draw(spectrum(12 if entry in ("zhit", "cnls") else 16)), "keys": keys, "global_seed": draw(st.integers(0, 2**31)), "num_procs": draw(st.sampled_from([2, 3, 7, 12, 16]))}


def _data(spec):
    from pyimpspec import DataSet

    f = np.logspace(spec["top"], spec["top"] - spec["decades"], spec["n"])
    return DataSet(f, S.add_noise(S.ladder(f, spec["R0"], [tuple(e) for e in spec["els"]]), spec["noise"], spec["seed"]))


def run_entry(entry, data, num_procs, shared=None):
    from pyimpspec import calculate_drt, fit_circuit, parse_cdc, perform_kramers_kronig_test, perform_zhit
    from pyimpspec.analysis.fitting import generate_fit_identifiers
    from pyimpspec.analysis.kramers_kronig import evaluate_log_F_ext

    if entry in ("fit", "fit-constraint"):
        c = parse_cdc("R{R=30}(R{R=80}C{C=2e-5})(R{R=50}Q{Y=1e-3,n=0.9})")
        kw = {}
        if entry == "fit-constraint":
            ident = generate_fit_identifiers(c)
            rs = [e for e in c.get_elements() if e.get_symbol() == "R"]
            kw = shared if shared is not None else {"constraint_expressions": {ident[rs[2]].R: f"alpha * {ident[rs[1]].R}"}, "constraint_variables": {"alpha": dict(value=0.6, min=0.1, max=5.0)}}
        return fit_circuit(c, data, method=["least_squares", "leastsq", "lbfgsb"], weight=["boukamp", "modulus"], num_procs=num_procs, **kw)
    if entry == "zhit":
        return perform_zhit(data, smoothing="auto", interpolation="auto", window="auto", num_procs=num_procs)
    if entry == "kk-ext":
        return perform_kramers_kronig_test(data, test="complex", num_F_ext_evaluations=10, admittance=None, num_procs=num_procs)
    if entry == "kk-evaluate":
        return evaluate_log_F_ext(data, test="real", num_F_ext_evaluations=10, num_procs=num_procs)
    if entry == "cnls":
        return perform_kramers_kronig_test(data, test="cnls", num_RC=0, num_F_ext_evaluations=0, admittance=False, num_procs=num_procs, timeout=600)
    if entry == "bht":
        np.random.seed(4242)
        return calculate_drt(data, method="bht", num_attempts=4, num_samples=100, num_procs=num_procs)
    raise AssertionError(entry)


def digest(obj, depth=0) -> str:
    """Bit-exact digest of everything a result carries."""
    h = hashlib.sha256()

    def feed(o, d):
        if d > 6:
            return
        if isinstance(o, np.ndarray):
            h.update(str(o.dtype).encode() + str(o.shape).encode() + np.ascontiguousarray(o).tobytes())
        elif isinstance(o, (float, np.floating)):
            h.update(float(o).hex().encode())
        elif isinstance(o, (complex, np.complexfloating)):
            h.update((float(o.real).hex() + float(o.imag).hex()).encode())
        elif isinstance(o, (int, str, bool)) or o is None:
            h.update(repr(o).encode())
        elif isinstance(o, (list, tuple)):
            h.update(b"[")
            for x in o:
                feed(x, d + 1)
            h.update(b"]")
        elif isinstance(o, dict):
            for k in sorted(o, key=str):
                h.update(str(k).encode())
                feed(o[k], d + 1)
        elif hasattr(o, "to_string") and hasattr(o, "get_elements"):
            h.update(o.to_string(17).encode())
        elif hasattr(o, "value") and hasattr(o, "stderr") and hasattr(o, "fixed"):
            feed([o.value, o.fixed, o.unit], d + 1)  # FittedParameter (stderr may be NaN: excluded from bit identity)
        elif hasattr(o, "__dict__") and type(o).__module__.startswith("pyimpspec"):
            for k in sorted(vars(o)):
                if k == "minimizer_result":
                    continue  # lmfit object: covered through the circuit / parameters / chi-squared
                h.update(k.encode())
                feed(getattr(o, k), d + 1)

    feed(obj, depth)
    return h.hexdigest()


def same(a, b, ctx=None) -> bool:
    """Bit-identical - or, for circuit fits only, the same winner with the same curve up to rounding.

    numpy's SIMD kernels for power/exp/log differ from the scalar ones by an ulp for the elements handled outside the
    vector loop, which depends on the alignment of freshly allocated arrays: two identical calls in one process can differ
    in the last bit of a residual. An iterative fit with a flat direction (a parameter the data does not determine)
    amplifies that into different values of that parameter at the same pseudo chi-squared (observed: 1 of 3233 thorough
    cases, R_3 = 3381 vs 1920 at chi-squared equal to 9e-13). That is not a dependence on schedules, seeds or pool sizes."""
    if digest(a) == digest(b):
        return True
    if type(a).__name__ != "FitResult" or type(b).__name__ != "FitResult":
        return False
    try:
        ok = a.method == b.method and a.weight == b.weight and abs(a.pseudo_chisqr - b.pseudo_chisqr) <= 1e-9 * abs(a.pseudo_chisqr)
        Za, Zb = np.asarray(a.impedances), np.asarray(b.impedances)
        ok = ok and Za.shape == Zb.shape and bool(np.all(np.abs(Za - Zb) <= 1e-6 * np.abs(Za)))
    except Exception:  # noqa: BLE001
        return False
    if ok and ctx is not None:
        ctx.label("fit-differs-in-rounding-only")
    return bool(ok)


def describe(obj) -> str:
    for attr in ("method", "weight", "smoothing", "interpolation", "window", "pseudo_chisqr"):
        pass
    parts_ = []
    objs = obj if isinstance(obj, (list, tuple)) else [obj]
    for o in objs[:2]:
        bits = [type(o).__name__]
        for attr in ("method", "weight", "smoothing", "interpolation", "window", "pseudo_chisqr", "num_RC"):
            if hasattr(o, attr):
                try:
                    bits.append(f"{attr}={getattr(o, attr)!r}")
                except Exception:  # noqa: BLE001
                    pass
        parts_.append(" ".join(bits))
    return "; ".join(parts_)


class patched_pools:
    def __init__(self, cls):
        self.cls = cls
        self.saved = {}

    def __enter__(self):
        import importlib

        for name in POOL_MODULES:
            m = importlib.import_module(name)
            self.saved[name] = m.Pool
            m.Pool = self.cls
        return self

    def __exit__(self, *exc):
        import importlib

        for name, old in self.saved.items():
            importlib.import_module(name).Pool = old
        return False


def body(ctx, case):
    entry = case["entry"]
    labels = {"entry:" + entry}
    data = _data(case["spec"])
    from pyimpspec.exceptions import DRTError, FittingError, KramersKronigError, ZHITError

    refusals = (DRTError, FittingError, KramersKronigError, ZHITError)
    try:
        ref = run_entry(entry, data, 1)
    except refusals as e:
        ctx.record(case, False, labels, "refused: " + type(e).__name__)
        return
    d_ref = digest(ref)
    # (iii) repetition with a different global numpy seed, and with the same argument objects re-used
    np.random.seed(case["global_seed"] % (2**32))
    again = run_entry(entry, data, 1)
    ctx.check(same(again, ref, ctx), "repeat-identical", case, f"{entry}: a repeated serial call differs: {describe(ref)} vs {describe(again)}")
    if entry == "fit-constraint":
        from pyimpspec import parse_cdc
        from pyimpspec.analysis.fitting import generate_fit_identifiers

        c = parse_cdc("R{R=30}(R{R=80}C{C=2e-5})(R{R=50}Q{Y=1e-3,n=0.9})")
        ident = generate_fit_identifiers(c)
        rs = [e for e in c.get_elements() if e.get_symbol() == "R"]
        shared = {"constraint_expressions": {ident[rs[2]].R: f"alpha * {ident[rs[1]].R}"}, "constraint_variables": {"alpha": dict(value=0.6, min=0.1, max=5.0)}}
        a = run_entry(entry, data, 1, shared)
        b = run_entry(entry, data, 1, shared)
        ctx.check(same(a, ref, ctx) and same(b, ref, ctx), "repeat-identical", case, f"{entry}: re-using the same constraint dictionaries changes the result: {describe(ref)} / {describe(a)} / {describe(b)}")
    # (i) harness-owned schedule
    sched = Schedule(case["keys"])
    with patched_pools(make_pool_class(sched)):
        try:
            fp = run_entry(entry, data, case.get("num_procs", 3))
        except refusals as e:
            ctx.fail("schedule-independent", case, f"{entry}: serial run returned a result, the pooled run raised {type(e).__name__}: {e}")
            fp = None
    if fp is not None:
        ctx.check(same(fp, ref, ctx), "schedule-independent", case,
                  f"{entry}: delivery orders {sched.used[:3]} give {describe(fp)}; serial reference {describe(ref)}")
    if sched.nontrivial:
        labels.add("fakepool:permuted")
    labels.add(f"fakepool:calls={min(sched.calls, 3)}")
    if sched.ordered_calls:
        labels.add("fakepool:ordered-api")  # map/imap: the tasks still ran on pickled copies under the requested pool size
    labels.add(f"requested-procs:{case.get('num_procs', 3)}")
    ctx.record(case, sched.nontrivial or sched.calls > 0 or sched.ordered_calls > 0, sorted(labels), "pool not used")


def cnls_cases(ctx):
    """The cnls test over its automatic num_RC range on a spectrum where its early-stop rule is in play
    (bundled mock circuit 4, admittance): the set of returned results must not depend on the delivery order."""
    for r in range(ctx.q(1, 6)):
        yield {"mock": "CIRCUIT_4", "keys": [[(7 * i + 3 * r) % 11 for i in range(40)]], "rep": r}


def body_cnls(ctx, case):
    from pyimpspec import generate_mock_data
    from pyimpspec.analysis.kramers_kronig import evaluate_log_F_ext

    data = generate_mock_data(case["mock"], noise=5e-2, seed=42, num_per_decade=4)[0]

    def run(p):
        return evaluate_log_F_ext(data, test="cnls", num_F_ext_evaluations=0, admittance=True, num_procs=p, timeout=3600)

    ref = run(1)
    sched = Schedule(case["keys"])
    with patched_pools(make_pool_class(sched)):
        got = run(3)
    n_ref, n_got = len(ref[0][1]), len(got[0][1])
    ctx.check(digest(got) == digest(ref), "schedule-independent", case, f"cnls over the automatic num_RC range: {n_got} results under delivery order {sched.used[:1]} vs {n_ref} serially")
    ctx.record(case, True, ["entry:cnls-early-stop", "fakepool:permuted" if sched.nontrivial else "fakepool:ordered-api"])


def real_cases(ctx):
    specs = [
        {"n": 12, "top": 4.0, "decades": 4, "R0": 20.0, "els": [[100.0, 1e-3, 1.0], [60.0, 0.02, 0.85]], "noise": 0.2, "seed": 11},
        {"n": 14, "top": 4.5, "decades": 5, "R0": 8.0, "els": [[40.0, 3e-4, 0.85]], "noise": 0.05, "seed": 12},
    ]
    entries = ["fit", "fit-constraint", "zhit", "kk-ext", "kk-evaluate", "cnls"]
    procs = ctx.q([2, 4], [2, 3, 4, 8, 16])
    reps = ctx.q(1, 3)
    for si, spec in enumerate(specs[: ctx.q(1, 2)]):
        for e in entries:
            for p in procs:
                for r in range(reps):
                    yield {"entry": e, "spec": spec, "num_procs": p, "rep": r}


def body_real(ctx, case):
    data = _data(case["spec"])
    ref = run_entry(case["entry"], data, 1)
    got = run_entry(case["entry"], data, case["num_procs"])
    ctx.check(same(got, ref, ctx), "num-procs-independent", case, f"{case['entry']}: num_procs={case['num_procs']} gives {describe(got)}; serial {describe(ref)}")
    ctx.record(case, True, ["real-pool", "entry:" + case["entry"], f"num_procs:{case['num_procs']}"])


def mock_cases(ctx):
    from pyimpspec.mock_data import generate_mock_data  # noqa: F401
    import pyimpspec.mock_data as M

    ids = sorted({getattr(d, "identifier", None) or getattr(d, "name", None) for d in getattr(M, "_definitions", [])} - {None})
    if not ids:
        ids = [f"CIRCUIT_{i}" for i in range(1, 20)] + [f"CIRCUIT_{i}_INVALID" for i in range(1, 17)]
    for i in ids:
        yield {"id": i, "noise": 0.5, "seed_a": 42 + ctx.seed, "seed_b": 43 + ctx.seed}
        if i in ids[:6]:
            # boundary seeds: 0, negative, wider than 32 bits
            yield {"id": i, "noise": 0.5, "seed_a": 0, "seed_b": 1}
            yield {"id": i, "noise": 0.5, "seed_a": -7, "seed_b": 2**32 + 5}


def body_mock(ctx, case):
    from pyimpspec import generate_mock_data

    def gen(seed):
        return generate_mock_data(case["id"], noise=case["noise"], seed=seed)

    try:
        a, b, c = gen(case["seed_a"]), gen(case["seed_a"]), gen(case["seed_b"])
    except Exception as e:  # noqa: BLE001
        ctx.record(case, False, ["mock-data"], "identifier refused: " + type(e).__name__)
        return
    ok = len(a) == len(b) == len(c) >= 1
    for x, y, z in zip(a, b, c):
        ok_same = np.array_equal(x.get_impedances(), y.get_impedances()) and np.array_equal(x.get_frequencies(), y.get_frequencies())
        ctx.check(ok_same, "mock-data-same-seed-identical", case, f"{case['id']}: two calls with seed {case['seed_a']} differ")
        ctx.check(not np.array_equal(x.get_impedances(), z.get_impedances()), "mock-data-different-seed-differs", case, f"{case['id']}: seeds {case['seed_a']} and {case['seed_b']} give identical data")
    ctx.check(ok, "mock-data-same-seed-identical", case, "number of data sets differs")
    ctx.record(case, True, ["mock-data"])


def parts(ctx):
    return [
        Part("mock-data", body_mock, items=mock_cases, exhaustive=True, budget_s={"quick": 60, "thorough": 300}),
        Part("fakepool", body, strategy=sched_case(), n={"quick": 96, "thorough": 3000}, budget_s={"quick": 200, "thorough": 2400}, case_timeout_s=200),
        Part("cnls-early-stop", body_cnls, items=cnls_cases, budget_s={"quick": 240, "thorough": 1800}, case_timeout_s=400),
        Part("real-pools", body_real, items=real_cases, budget_s={"quick": 200, "thorough": 2400}, case_timeout_s=300),
    ]
