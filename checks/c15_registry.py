"""C15 — the element registry and class defaults can always be restored (DESIGN.md section 4, C15).

Stateful model-based testing of process-global state: every shard is a fresh interpreter; a behavioural
fingerprint of the freshly imported library is taken before the first history; every history is a generated
sequence of registry operations compared step by step with a model, and ends with reset() followed by a
comparison with the import-time fingerprint.
"""
from __future__ import annotations

import math

import numpy as np
from hypothesis import strategies as st

from vlib.runner import HarnessError, Part

PROPERTY = "C15"
RULE = (
    "Hypothesis-generated histories (<= 25 steps) over register_element (4 class slots per history: definitions that are "
    "valid / inconsistent with their equation at the defaults / inconsistent only off the defaults; symbols that are new, "
    "duplicates of built-ins or of each other, invalid (lower-case first, upper-case inside, blank, with blanks) or "
    "prefixes/extensions of built-ins (Rx, La2, Lsx, Tl, Zar, Ca); private flag; validate_impedances default/True/False), "
    "remove_elements (single, list, built-in, unregistered), reset(elements, default_parameters), Class.set_default_values on "
    "built-ins and user classes, reset_default_parameter_values(None|class|list), parse_cdc probes of single symbols and "
    "concatenations, get_elements in all four flag combinations. Oracle: registry model after every step; after the final "
    "reset() a behavioural fingerprint (registry views, every built-in's defaults/limits/docstring, 20 probe circuits' "
    "impedances, visibility of a public re-registration of every previously private symbol) must equal the one taken right "
    "after import. Non-trivial: >= 1 successful registration followed by a reset/remove; distinct by SHA-1 of the history."
)
ASSUMPTIONS = [
    "each generated class is registered under one symbol only (registering one class under two symbols is not generated)",
    "an invalid symbol must be refused with some exception and leave the registry unchanged (the exception type is not prescribed)",
    "each shard process is a fresh interpreter; the registry is force-restored from a snapshot between histories (test-side clean-up after the oracle has judged)",
]
SHARDS = {"quick": 8, "thorough": 16}
FLOOR = 0.3

USER_SYMBOLS = ["Xa", "Xb", "Xp", "Rx", "La2", "Lsx", "Tl", "Zar", "Ca", "Q_1", "Ws2", "Ly"]
DUP_BUILTIN = ["R", "C", "L", "La", "Ls", "Q", "K", "Tlm", "W"]
INVALID_SYMBOLS = ["xa", "XaB", "", "  ", "X a", "1X", "X-a", "Xé", "RC"]
PADDED = [" Xq ", "Xr\t"]
PROBE_CDCS = [
    "R", "C", "L", "La", "Ls", "Q", "W", "Wo", "Ws", "G", "Ga", "H", "Ha", "Zarc", "K", "Ky", "Tlm", "LLaLs", "R(RC)(RQ)", "R(C[RW])",
    "Tlmbo", "Tlmbq", "Tlmbs", "Tlmno", "Tlmnq", "Tlmns", "[R{R=5}(C{C=1e-5}[RLa])]",
]
PROBE_F = np.array([1e4, 1.0, 1e-3])

_IMPORT = {}


# ---------------------------------------------------------------------------- fingerprint
def _class_print(cls):
    out = {
        "defaults": cls.get_default_values(),
        "lower": cls.get_default_lower_limits(),
        "upper": cls.get_default_upper_limits(),
        "fixed": cls.are_fixed_by_default(),
        "symbol": cls.get_symbol(),
        "description": cls.get_description(),
        "doc": cls.get_extended_description(),
        "units": cls.get_units(),
        "instance": cls().get_values(),
    }
    if hasattr(cls, "get_default_subcircuits"):
        out["subs"] = {k: (None if v is None else v.to_string(17)) for k, v in cls.get_default_subcircuits().items()}
    return out


def _probe(cdc):
    from pyimpspec import parse_cdc

    try:
        c = parse_cdc(cdc)
        with np.errstate(all="ignore"):
            z = c.get_impedances(PROBE_F)
        return {"classes": [type(e).__name__ for e in c.get_elements()], "text": c.to_string(12), "Z": [complex(v) for v in z]}
    except Exception as e:  # noqa: BLE001
        return {"error": type(e).__name__}


def fingerprint():
    from pyimpspec import get_elements

    views = {}
    for d in (False, True):
        for p in (False, True):
            views[f"default_only={d},private={p}"] = {k: id(v) for k, v in get_elements(default_only=d, private=p).items()}
    classes = {k: _class_print(v) for k, v in get_elements(default_only=True, private=True).items()}
    probes = {cdc: _probe(cdc) for cdc in PROBE_CDCS}
    unknown = {s: _probe(s)["error"] if "error" in _probe(s) else "accepted" for s in USER_SYMBOLS}
    return {"views": views, "classes": classes, "probes": probes, "unregistered-symbols": unknown}


def _diff(a, b, path=""):
    if isinstance(a, dict) and isinstance(b, dict):
        for k in sorted(set(a) | set(b), key=str):
            if k not in a or k not in b:
                return f"{path}/{k}: present on one side only"
            d = _diff(a[k], b[k], f"{path}/{k}")
            if d:
                return d
        return None
    if isinstance(a, list) and isinstance(b, list):
        if len(a) != len(b):
            return f"{path}: length {len(a)} != {len(b)}"
        for i, (x, y) in enumerate(zip(a, b)):
            d = _diff(x, y, f"{path}[{i}]")
            if d:
                return d
        return None
    if isinstance(a, float) and isinstance(b, float) and math.isnan(a) and math.isnan(b):
        return None
    return None if a == b else f"{path}: {a!r} != {b!r}"


def setup(ctx):
    import pyimpspec.circuit.registry as reg

    if _IMPORT:
        return
    from pyimpspec import get_elements

    if any(s in get_elements(private=True) for s in USER_SYMBOLS):
        raise HarnessError("registry is not in its freshly imported state at shard start")
    _IMPORT["fp"] = fingerprint()
    _IMPORT["elements"] = dict(reg._ELEMENTS)
    _IMPORT["private"] = dict(reg._PRIVATE_ELEMENTS)
    _IMPORT["defaults"] = {k: v.get_default_values() for k, v in get_elements(default_only=True, private=True).items()}


def _force_restore():
    """Test-side clean-up between histories (after the oracle has judged): restore the registry from the import snapshot."""
    import pyimpspec.circuit.registry as reg

    reg._ELEMENTS.clear()
    reg._ELEMENTS.update(_IMPORT["elements"])
    reg._PRIVATE_ELEMENTS.clear()
    reg._PRIVATE_ELEMENTS.update(_IMPORT["private"])
    for k, cls in _IMPORT["elements"].items():
        cls._parameter_default_value.clear()
        cls._parameter_default_value.update(_IMPORT["defaults"][k])


# ---------------------------------------------------------------------------- strategies
@st.composite
def history(draw):
    slots = []
    for i in range(4):
        sym_kind = draw(st.sampled_from(["new", "new", "new", "new", "dup-builtin", "invalid", "padded"]))
        sym = draw(st.sampled_from({"new": USER_SYMBOLS, "dup-builtin": DUP_BUILTIN, "invalid": INVALID_SYMBOLS, "padded": PADDED}[sym_kind]))
        slots.append({
            "symbol": sym,
            "kind": draw(st.sampled_from(["valid", "valid", "valid", "inconsistent", "offdefault", "inconsistent-minor"])),
            "private": draw(st.sampled_from([False, False, True])),
            "container": draw(st.integers(0, 5)) == 0,
        })
    builtin = st.sampled_from(["R", "C", "Q", "W", "K", "Tlm", "Zarc", "La"])
    ref = st.one_of(st.integers(0, 3).map(lambda i: {"slot": i}), builtin.map(lambda s: {"builtin": s}))
    ops = []
    for _ in range(draw(st.integers(1, 25))):
        kind = draw(st.sampled_from(["register", "register", "register", "remove", "reset", "set-default", "reset-defaults", "probe", "probe"]))
        if kind == "register":
            ops.append({"op": "register", "slot": draw(st.integers(0, 3)), "validate": draw(st.sampled_from([None, None, True, False]))})
        elif kind == "remove":
            refs = draw(st.lists(ref, min_size=0 if draw(st.integers(0, 9)) == 0 else 1, max_size=3))
            ops.append({"op": "remove", "refs": refs, "as_list": draw(st.booleans()) or len(refs) != 1})
        elif kind == "reset":
            ops.append({"op": "reset", "elements": draw(st.booleans()), "defaults": draw(st.booleans())})
        elif kind == "set-default":
            ops.append({"op": "set-default", "ref": draw(ref), "key": draw(st.sampled_from(["R", "C", "Y", "n", "L", "tau", "a", "nope"])), "value": draw(st.floats(1e-6, 1e6)), "kw": draw(st.booleans())})
        elif kind == "reset-defaults":
            ops.append({"op": "reset-defaults", "refs": draw(st.one_of(st.none(), st.lists(ref, min_size=1, max_size=3))), "as_list": draw(st.booleans())})
        else:
            ops.append({"op": "probe", "picks": draw(st.lists(st.integers(0, 40), min_size=1, max_size=4))})
    return {"slots": slots, "ops": ops}


# ---------------------------------------------------------------------------- model + interpreter
def _valid_symbol(sym: str) -> bool:
    s = sym.strip()
    if s == "" or not ("A" <= s[0] <= "Z"):
        return False
    return all(ch in "abcdefghijklmnopqrstuvwxyz0123456789_" for ch in s[1:])


def _make_class(slot):
    from pyimpspec import Container, Element

    kind = slot["kind"]

    if slot["container"]:
        def _impedance(self, f, R, a, X_1):  # noqa: ANN001
            base = R * (2.0 if kind == "inconsistent" else 1.0) * (a if kind == "offdefault" else 1.0)
            return np.full(f.shape, base, dtype=complex) + (X_1._impedance(f) if X_1 is not None else 0.0)

        return type("UserContainer", (Container,), {"_impedance": _impedance})

    def _impedance(self, f, R, a):  # noqa: ANN001
        base = R * (2.0 if kind == "inconsistent" else 1.0) * (a if kind == "offdefault" else 1.0)
        if kind == "inconsistent-minor":
            # contradiction confined to the minor component: the equation says +j*2*pi*f*1e-12*a, the code computes -j...
            return np.full(f.shape, base, dtype=complex) - 2j * np.pi * f * 1e-12 * a
        return np.full(f.shape, base, dtype=complex)

    return type("UserElement", (Element,), {"_impedance": _impedance})


def _definition(slot, cls):
    from pyimpspec import ContainerDefinition, ElementDefinition, ParameterDefinition, Resistor, Series, SubcircuitDefinition

    params = [
        ParameterDefinition(symbol="R", unit="ohm", description="resistance", value=10.0, lower_limit=0.0, upper_limit=math.inf, fixed=False),
        ParameterDefinition(symbol="a", unit="", description="factor", value=1.0, lower_limit=0.0, upper_limit=math.inf, fixed=True),
    ]
    common = dict(Class=cls, symbol=slot["symbol"], name="User element", description="Generated test element.", parameters=params)
    if slot["container"]:
        return ContainerDefinition(equation="R + X_1", subcircuits=[SubcircuitDefinition(symbol="X_1", unit="ohm", description="sub", value=Series([Resistor(R=3.0)]))], **common)
    return ElementDefinition(equation="R + 2*pi*f*1e-12*a*I" if slot["kind"] == "inconsistent-minor" else "R", **common)


def run_history(ctx, case):
    import pyimpspec
    from pyimpspec import get_elements, parse_cdc, register_element
    from pyimpspec.circuit.registry import remove_elements, reset, reset_default_parameter_values  # documented module path

    setup(ctx)  # no-op after the first call; the parent process replays regression cases without a shard set-up
    builtins = dict(get_elements(default_only=True, private=True))
    builtin_private = {k for k in builtins if k not in get_elements(default_only=True, private=False)}
    orig_defaults = {k: dict(v) for k, v in _IMPORT["defaults"].items()}
    slots = case["slots"]
    classes = [_make_class(s) for s in slots]
    reg = dict(builtins)  # model: symbol -> class
    private = set(builtin_private)
    defaults = {id(c): dict(orig_defaults[k]) for k, c in builtins.items()}
    labels = set()
    ever_private = set()
    registered_then_removed = False
    n_registered = 0

    def resolve(ref):
        return classes[ref["slot"]] if "slot" in ref else builtins[ref["builtin"]]

    def check_state(step):
        ok = True
        full = get_elements(private=True)
        ok &= ctx.check(list(full.keys()) == sorted(reg) and all(full[k] is reg[k] for k in reg), "registry-equals-model", case,
                        f"step {step}: get_elements(private=True) = {sorted(full)} ; model {sorted(reg)}")
        pub = get_elements()
        ok &= ctx.check(sorted(pub) == sorted(k for k in reg if k not in private), "public-view-equals-model", case,
                        f"step {step}: get_elements() = {sorted(pub)} ; model {sorted(k for k in reg if k not in private)}")
        d_all = get_elements(default_only=True, private=True)
        d_pub = get_elements(default_only=True)
        ok &= ctx.check(
            sorted(d_all) == sorted(builtins) and all(d_all[k] is builtins[k] for k in builtins) and sorted(d_pub) == sorted(k for k in builtins if k not in builtin_private),
            "builtins-preserved", case, f"step {step}: default-only views changed: {sorted(d_all)} / {sorted(d_pub)}",
        )
        for k, c in builtins.items():
            if c.get_default_values() != defaults[id(c)]:
                ok &= ctx.check(False, "class-defaults-equal-model", case, f"step {step}: {k}: defaults {c.get_default_values()} != model {defaults[id(c)]}")
                break
        return ok

    def probe_symbol(step, sym):
        try:
            c = parse_cdc(sym)
            els = c.get_elements()
            got = [type(e) for e in els]
        except Exception as e:  # noqa: BLE001
            got = type(e).__name__
        if sym in reg:
            ctx.check(got == [reg[sym]], "parser-recognises-registered-symbols", case, f"step {step}: parse_cdc({sym!r}) -> {got}; registered as {reg[sym]}")
        else:
            ctx.check(isinstance(got, str), "parser-recognises-registered-symbols", case, f"step {step}: parse_cdc({sym!r}) accepted an unregistered symbol: {got}")

    ok = True
    for step, op in enumerate(case["ops"]):
        kind = op["op"]
        labels.add("op:" + kind)
        if kind == "register":
            slot, cls = slots[op["slot"]], classes[op["slot"]]
            sym = slot["symbol"].strip()
            kwargs = {}
            if op["validate"] is not None:
                kwargs["validate_impedances"] = op["validate"]
            if slot["private"]:
                kwargs["private"] = True
            if not _valid_symbol(slot["symbol"]):
                expect = "refused"
                labels.add("register:invalid-symbol")
            elif slot["kind"] in ("inconsistent", "inconsistent-minor") and not slot["container"] and op["validate"] in (None, True) or (slot["kind"] == "inconsistent" and op["validate"] in (None, True)):
                expect = "refused"
                labels.add("register:inconsistent-refused" + ("-minor" if slot["kind"] == "inconsistent-minor" else ""))
            elif sym in reg and reg[sym] is not cls:
                expect = "refused"
                labels.add("register:duplicate-symbol" + ("-builtin" if sym in builtins else ""))
            elif any(v is cls for k, v in reg.items() if k != sym):
                continue  # would register one class under two symbols: not generated (see ASSUMPTIONS)
            else:
                expect = "accepted"
            before = dict(get_elements(private=True))
            try:
                register_element(_definition(slot, cls), **kwargs)
                got = "accepted"
            except Exception as e:  # noqa: BLE001
                got = "refused"
                exc = e
            if expect == "refused":
                ok &= ctx.check(got == "refused", "invalid-registration-refused", case, f"step {step}: registering {slot} (validate={op['validate']}) was accepted")
                after = dict(get_elements(private=True))
                ok &= ctx.check(list(after.items()) == list(before.items()), "refused-registration-leaves-registry", case, f"step {step}: refused registration changed the registry")
                if got == "accepted":
                    # keep the model in step with reality so that one defect is reported once
                    reg[sym] = cls
            else:
                ok &= ctx.check(got == "accepted", "valid-registration-accepted", case, f"step {step}: registering {slot} was refused: {exc if got == 'refused' else ''!r}")
                if got == "accepted":
                    reg[sym] = cls
                    n_registered += 1
                    defaults[id(cls)] = {"R": 10.0, "a": 1.0}
                    if slot["private"]:
                        private.add(sym)
                        ever_private.add(sym)
                    else:
                        private.discard(sym)
                    if slot["kind"] == "offdefault":
                        labels.add("register:offdefault-accepted")
                    if len(sym) > 1 and any(sym.startswith(b) or b.startswith(sym) for b in builtins):
                        labels.add("register:prefix-or-extension-of-builtin")
        elif kind == "remove":
            objs = [resolve(r) for r in op["refs"]]
            arg = objs if op["as_list"] else objs[0]
            has_builtin = any("builtin" in r for r in op["refs"])
            before = dict(get_elements(private=True))
            try:
                remove_elements(arg)
                got = "accepted"
            except (ValueError, TypeError):
                got = "refused"
            if has_builtin or not objs:
                ok &= ctx.check(got == "refused", "builtin-removal-refused", case, f"step {step}: remove_elements({op['refs']}) was accepted")
                ok &= ctx.check(dict(get_elements(private=True)) == before, "builtin-removal-refused", case, f"step {step}: refused removal changed the registry")
                labels.add("remove:refused")
            else:
                ok &= ctx.check(got == "accepted", "user-removal-accepted", case, f"step {step}: remove_elements of user classes was refused")
                for c in objs:
                    for k in [k for k, v in reg.items() if v is c]:
                        del reg[k]
                        private.discard(k)
                        registered_then_removed = True
        elif kind == "reset":
            reset(elements=op["elements"], default_parameters=op["defaults"])
            if op["elements"]:
                if len(reg) > len(builtins):
                    registered_then_removed = True
                reg = dict(builtins)
                private = set(builtin_private)
            if op["defaults"]:
                for k, c in builtins.items():
                    defaults[id(c)] = dict(orig_defaults[k])
        elif kind == "set-default":
            cls = resolve(op["ref"])
            known = id(cls) in defaults
            valid = known and op["key"] in defaults[id(cls)]
            try:
                if op["kw"]:
                    cls.set_default_values(**{op["key"]: op["value"]})
                else:
                    cls.set_default_values(op["key"], op["value"])
                got = "accepted"
            except KeyError:
                got = "refused"
            if "builtin" in op["ref"]:
                # user classes: a *refused* registration has already initialised the class attributes, so whether a key
                # exists there is not part of the property; only built-ins are judged
                ok &= ctx.check((got == "accepted") == bool(valid), "set-default-values", case, f"step {step}: set_default_values({op['key']}) on {cls.__name__}: {got}, model expects {'accepted' if valid else 'refused'}")
            if got == "accepted" and known and op["key"] in defaults[id(cls)]:
                defaults[id(cls)][op["key"]] = float(op["value"])
                labels.add("set-default:applied")
        elif kind == "reset-defaults":
            if op["refs"] is None:
                reset_default_parameter_values()
                targets = list(builtins.values())
            else:
                objs = [resolve(r) for r in op["refs"]]
                reset_default_parameter_values(objs if (op["as_list"] or len(objs) != 1) else objs[0])
                targets = objs
            for k, c in builtins.items():
                if any(t is c for t in targets):
                    defaults[id(c)] = dict(orig_defaults[k])
        else:  # probe
            cands = sorted(set(USER_SYMBOLS + list(builtins) + [s["symbol"].strip() for s in slots if _valid_symbol(s["symbol"])]))
            picks = [cands[i % len(cands)] for i in op["picks"]]
            for s in picks:
                probe_symbol(step, s)
            regd = [s for s in picks if s in reg and not hasattr(reg[s], "get_default_subcircuits")] or ["R"]
            text = "".join(regd)
            try:
                c = parse_cdc(text)
                got = [type(e) for e in c.get_elements()]
            except Exception as e:  # noqa: BLE001
                got = type(e).__name__
            ok &= ctx.check(got == [reg[s] for s in regd], "longest-symbol-wins", case, f"step {step}: parse_cdc({text!r}) -> {got}; expected {[reg[s].__name__ for s in regd]}")
            if len(regd) > 1:
                labels.add("probe:concatenation")
        ok &= check_state(step)
        if not ok:
            break

    # ---- final: reset() must restore the freshly imported behaviour
    if ok:
        try:
            reset()
            fp = fingerprint()
            d = _diff(_IMPORT["fp"], fp)
            ctx.check(d is None, "reset-restores-fresh-import", case, f"after reset(): {d}")
            # behaviour, not only views: a public element registered under a symbol that was private earlier must be visible
            for sym in sorted(ever_private):
                probe = {"symbol": sym, "kind": "valid", "private": False, "container": False}
                cls = _make_class(probe)
                try:
                    register_element(_definition(probe, cls))
                    visible = sym in get_elements()
                    remove_elements(cls)
                    ctx.check(visible, "reset-restores-fresh-import", case, f"after reset(): a public element registered as {sym!r} (a symbol that an earlier, private, registration used) is hidden from get_elements()")
                    labels.add("final:private-symbol-reused")
                except Exception as e:  # noqa: BLE001
                    ctx.crash("reset-restores-fresh-import", case, e)
            d = _diff(_IMPORT["fp"], fingerprint())
            ctx.check(d is None, "reset-restores-fresh-import", case, f"after reset() + register/remove probe: {d}")
        finally:
            pass
    _force_restore()
    if n_registered:
        labels.add("registered")
    ctx.record(case, n_registered >= 1 and registered_then_removed, sorted(labels), "no successful registration followed by a reset/remove")


REQUIRED_CLASSES = {
    t: ["register:invalid-symbol", "register:inconsistent-refused", "register:inconsistent-refused-minor", "register:duplicate-symbol-builtin", "register:prefix-or-extension-of-builtin",
        "register:offdefault-accepted", "remove:refused", "set-default:applied", "probe:concatenation", "final:private-symbol-reused"]
    for t in ("quick", "thorough")
}


def parts(ctx):
    return [Part("histories", run_history, strategy=history(), n={"quick": 6000, "thorough": 100000}, budget_s={"quick": 150, "thorough": 1800})]
