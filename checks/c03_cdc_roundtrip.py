"""C03 — circuit description codes mean one circuit, however they are spelled (DESIGN.md section 4, C03)."""
from __future__ import annotations

import copy
import math

import numpy as np
from hypothesis import strategies as st

from vlib import gen_circuits as G
from vlib.runner import Part

PROPERTY = "C03"
RULE = (
    "Hypothesis-generated circuit ASTs (all registered element types, containers with open/short/nested sub-circuits, values "
    "inside their limits incl. values and limits moved outside the class default box, +-inf limits, fixed flags, identifier and rich "
    "labels) built through the public setters; serialised with decimals 1..17 (mantissas drawn with <= decimals+1 digits so the "
    "text carries them exactly); plus 3 (quick) / 5 (thorough) alternative spellings per AST drawn from a grammar-directed printer "
    "(implicit outer series, version header, white space, omitted/permuted parameters, omitted limits, v/lo, v//hi, v/lo/hi, inf, "
    "percentages, f/F, number formats, short|zero|open|inf, bare element lists). Oracle: parse(text) equals the intended tree "
    "(exact numbers) after flattening same-kind nesting; canonical circuits re-serialise byte-identically, others reach a fixed "
    "point; deepcopy serialises identically; impedance preserved. Non-trivial: AST uses >= 1 extended feature (non-default "
    "value/limit/fixed/label, container, or an alternative spelling); distinct by SHA-1 of (ast, texts)."
)
ASSUMPTIONS = [
    "the printer's reading of the CDC grammar (parser.py / tokenizer.py / docs guide_circuit.rst)",
    "labels start with an ASCII letter and have balanced braces (what the label token can carry); other labels accepted by set_label are a separate, listed class",
]
SHARDS = {"quick": 8, "thorough": 16}
FLOOR = 0.5
REQUIRED_CLASSES = {
    t: ["container", "nested-container", "bare-list", "kw:zero", "kw:inf", "percent", "limits-beyond-defaults", "rich-label", "decimals<12", "implicit-series", "header", "lower-f", "param-omitted", "limits-omitted", "whitespace", "non-canonical"]
    for t in ("quick", "thorough")
}


@st.composite
def case_strategy(draw, label_mode="mixed"):
    d = draw(st.sampled_from([17, 17, 12, 12, 16, 15, 9, 6, 4, 3, 2, 1]))
    sm = d + 1 if d < 16 else None
    syms = sorted(G.element_classes(private=True))
    weighted = syms + ["R", "C", "Q", "Tlm", "Tlm"] * 2
    canonical = draw(st.integers(0, 3)) > 0
    ast = draw(
        G.st_tree(weighted, max_leaves=draw(st.sampled_from([1, 2, 3, 5, 8])), state="full", labels=label_mode, canonical=canonical,
                  short_mantissa=sm, beyond=True)
    )
    n_sp = 3
    styles = ("17E", "repr", "int", "lower-e") if sm is None else ("17E", "repr", "int", "12E") if sm <= 13 else ("17E", "repr", "int")
    spellings = [list(draw(G.st_spelling(ast, num_styles=styles))) for _ in range(n_sp)]
    return {"ast": ast, "decimals": d, "spellings": spellings}


def _features(ast):
    labels = set()
    for e in G.ast_elements(ast):
        if e[4] is not None:
            labels.add("container")
            if any(isinstance(v, list) and any(x[4] is not None for x in G.ast_elements(v)) for v in e[4].values()):
                labels.add("nested-container")
        if e[3]:
            labels.add("label")
            if not e[3].isidentifier():
                labels.add("rich-label")
        info = G.class_info(G.element_classes()[e[1]])
        for k, p in e[2].items():
            if "lo" in p or "hi" in p:
                labels.add("custom-limits")
                lo, hi = p.get("lo", info[k]["lo"]), p.get("hi", info[k]["hi"])
                if lo >= info[k]["hi"] or hi <= info[k]["lo"] or p.get("v", info[k]["v"]) > info[k]["hi"] or p.get("v", info[k]["v"]) < info[k]["lo"]:
                    labels.add("limits-beyond-defaults")
            if "v" in p:
                labels.add("custom-value")
            if "fx" in p:
                labels.add("custom-fixed")
    return labels


def body(ctx, case):
    from pyimpspec import parse_cdc
    from pyimpspec.exceptions import ImpedanceError

    ast, d = case["ast"], case["decimals"]
    labels = _features(ast)
    if d < 12:
        labels.add("decimals<12")
    canonical = G.is_canonical(ast)
    if not canonical:
        labels.add("non-canonical")
    want = G.canonical_explicit(ast)

    # ---- (1)+(3): every spelling parses to the intended tree
    for text, used in case["spellings"]:
        labels.update(used)
        try:
            parsed = parse_cdc(text)
        except Exception as e:  # noqa: BLE001
            ctx.fail("spelling-parses", case_one(case, text), f"valid spelling rejected: {text!r}: {type(e).__name__}: {e}", kind=type(e).__name__)
            continue
        got = G.canonical_explicit(G.circuit_to_ast(parsed))
        diff = G.equiv(want, got, rel=0.0)
        ctx.check(diff is None, "spelling-means-intended-circuit", case_one(case, text), f"{text!r}: {diff}")

    # ---- (2): object-built circuit, serialise / parse / re-serialise
    try:
        circuit = G.build_objects(ast)
    except Exception as e:  # noqa: BLE001
        ctx.crash("build-through-setters", case, e)
        ctx.record(case, False, labels, "could not build")
        return
    built = G.canonical_explicit(G.circuit_to_ast(circuit))
    diff = G.equiv(want, built, rel=0.0)
    ctx.check(diff is None, "setters-establish-state", case, f"object built through the setters differs from the intended state: {diff}")
    base = {"ast": ast, "decimals": d, "spellings": []}
    try:
        s = circuit.serialize(d)
    except Exception as e:  # noqa: BLE001
        ctx.crash("serialize", base, e)
        ctx.record(case, False, labels, "could not serialise")
        return
    try:
        back = parse_cdc(s)
    except Exception as e:  # noqa: BLE001
        ctx.fail("serialised-text-parses", base, f"serialize({d}) = {s!r} is rejected: {type(e).__name__}: {e}", kind=type(e).__name__)
        ctx.record(case, False, labels, "serialisation rejected")
        return
    got = G.canonical_explicit(G.circuit_to_ast(back))
    diff = G.equiv(want, got, rel=0.0)
    if not ctx.check(diff is None, "roundtrip-equivalent", base, f"parse(serialize({d})) differs: {diff}; text {s!r}"):
        ctx.record(case, False, labels, "round trip not equivalent")
        return  # the remaining clauses presuppose an equivalent round trip
    try:
        s2 = back.serialize(d)
        if canonical:
            ctx.check(s2 == s, "reserialise-identical", base, f"{s!r} -> {s2!r}")
        else:
            s3 = parse_cdc(s2).serialize(d)
            ctx.check(s3 == s2, "reserialise-fixed-point", base, f"{s2!r} -> {s3!r}")
    except Exception as e:  # noqa: BLE001
        ctx.crash("reserialise-identical", base, e)
    try:
        dc = copy.deepcopy(circuit)
        ctx.check(dc.serialize(d) == s, "deepcopy-serialises-identically", base, f"{dc.serialize(d)!r} != {s!r}")
        cc = copy.copy(circuit)
        ctx.check(cc.serialize(d) == s, "deepcopy-serialises-identically", base, "copy.copy serialises differently")
    except Exception as e:  # noqa: BLE001
        ctx.crash("deepcopy-serialises-identically", base, e)
    # impedance preserved
    f = np.array([1e4, 10.0, 1e-2])
    try:
        with np.errstate(all="ignore"):
            z1 = circuit.get_impedances(f)
        try:
            with np.errstate(all="ignore"):
                z2 = back.get_impedances(f)
            ctx.check(bool(np.allclose(z1, z2, rtol=1e-9, atol=0)), "impedance-preserved", base, f"{z1} != {z2}")
        except (ImpedanceError, NotImplementedError) as e:
            ctx.fail("impedance-preserved", base, f"original simulates, parsed copy refuses: {type(e).__name__}")
    except (ImpedanceError, NotImplementedError):
        pass
    extended = bool(labels - {"non-canonical", "decimals<12"})
    ctx.record(case, extended, sorted(labels), "plain default circuit")


def case_one(case, text):
    return {"ast": case["ast"], "decimals": case["decimals"], "spellings": [[text, []]]}


# hand-written spellings from the documentation (regression-style, exhaustive over the list)
DOC_CASES = [
    ("R{R=20f:sol}(C{C=25e-6//1e-3:dl}[R{R=100/50/200:ct}W{Y=2.357e-3/inf/150%:diff}])", "[R{R=2.0E+01F/0.0E+00/inf:sol}(C{C=2.5E-05/1.0E-24/1.0E-03:dl}[R{R=1.0E+02/5.0E+01/2.0E+02:ct}W{Y=2.357E-03/inf/3.5355E-03,n=5.0E-01F/0.0E+00/1.0E+00:diff}])]"),
    ("R{R=10}Tlm{X_1=R{R=2}}", None),
]


def doc_items(ctx):
    for text, _ in DOC_CASES:
        yield {"text": text}


def doc_body(ctx, case):
    from pyimpspec import parse_cdc

    text = case["text"]
    c = parse_cdc(text)
    s = c.serialize(12)
    again = parse_cdc(s)
    ctx.check(again.serialize(12) == s, "reserialise-identical", case, f"{s!r}")
    n_top = len(c.get_elements(recursive=False))
    ctx.check(n_top == len(again.get_elements(recursive=False)), "roundtrip-equivalent", case, "top-level element count changed")
    ctx.record(case, True, ["doc-example"])


def _label_not_carried(label: str) -> bool:
    """Labels that Element.set_label accepts but the CDC label token cannot carry: not starting with an ASCII letter,
    or with unbalanced curly braces."""
    label = label.strip()
    if label == "":
        return False
    if not (label[0].isascii() and label[0].isalpha()):
        return True
    depth = 0
    for ch in label:
        if ch == "{":
            depth += 1
        elif ch == "}":
            depth -= 1
            if depth < 0:
                return True
    return depth != 0


def pred_label_not_carried(case) -> bool:
    return any(_label_not_carried(e[3]) for e in G.ast_elements(case["ast"]))


PREDICATES = {"label-not-carried-by-cdc-syntax": pred_label_not_carried}


@st.composite
def hostile_case(draw):
    lab = st.one_of(
        G.label_hostile(),
        st.text(alphabet=st.characters(min_codepoint=32, max_codepoint=126), min_size=1, max_size=6).filter(lambda t: t.strip() != "" and not t.strip().isdigit()),
        st.builds(lambda a, t: a + t, st.sampled_from("abcXYZ"), st.text(alphabet=st.characters(min_codepoint=32, max_codepoint=126), max_size=6)),
        st.builds(lambda a, t: a + t, st.sampled_from("abcXYZ"), st.text(alphabet="ab {}:,=/", max_size=6)),
    )
    els = [["E", draw(st.sampled_from(["R", "C", "Q"])), {}, draw(lab).strip(), None] for _ in range(draw(st.integers(1, 3)))]
    return {"ast": ["S", els], "decimals": 12, "spellings": []}


def parts(ctx):
    return [
        Part("doc-examples", doc_body, items=doc_items, shard=False),
        Part("ast-spellings", body, strategy=case_strategy(), n={"quick": 4000, "thorough": 60000}),
        Part("any-accepted-label", body, strategy=hostile_case(), n={"quick": 600, "thorough": 8000}),
    ]
