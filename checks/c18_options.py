"""C18 — every documented option combination completes or is refused up front (DESIGN.md section 4, C18).

Finite option grids are enumerated (itertools.product; thorough: complete, quick: a deterministic stride through the
same product that still covers every value of every option) on spectra of several sizes; the oracle is an exception
taxonomy plus a monitor on the progress notifications.
"""
from __future__ import annotations

import itertools
import math

import numpy as np

from vlib import gen_spectra as S
from vlib.runner import Part, innermost_is_raise_in_lib, lib_frame

PROPERTY = "C18"
RULE = (
    "Option cross products per entry point, on noisy RC/RQ ladder spectra of sizes {1,2,3,4,5,6,8,12,31}: "
    "perform_kramers_kronig_test {7 tests} x {Z, Y, None} x add_capacitance x add_inductance x {num_RC 0 (auto), 2, 6, 99} x "
    "num_F_ext_evaluations {-10, 0, 10, 14} x rapid (cnls with fixed num_RC or <= 12 points only); perform_zhit {none, lowess, "
    "savgol, modsinc, whithend, auto} x {akima, makima, cubic, pchip, auto} x {Z, Y} x {custom weights, named window, auto "
    "window}; calculate_drt tr-nnls {real, imaginary} x lambda {1e-3, -1, -2}, bht, lm {model_order 0, 2} x {matrix_rank, "
    "pseudo_chisqr}, mrq-fit; fit_circuit {9 methods} x {4 weights} singly, lists, and auto; plus invalid values for each "
    "option (wrong type, out of range). thorough: full products; quick: every k-th combination of the same products (each "
    "option value still occurs). Oracle: outcome is a result of the documented type, or a refusal = TypeError/ValueError/"
    "pyimpspec.exceptions class raised by an explicit raise statement in pyimpspec outside progress.py (a TypeError must "
    "come before any progress beyond 0 was reported); anything else is a violation bucketed by (exception type, innermost "
    "pyimpspec frame). Every progress notification must carry 0 <= progress <= 1 and a str message. Non-trivial: combinations "
    "that run to completion."
)
ASSUMPTIONS = [
    "a late ValueError/library error that names the offending option (e.g. num_RC outside the range that only the run itself determines) counts as a refusal; a late TypeError does not",
    "tr-rbf is not exercised (no convex optimiser is installed; the property does not list it); fully automatic cnls only on <= 12 points",
]
SHARDS = {"quick": 8, "thorough": 16}
FLOOR = 0.2
SIZES = [1, 2, 3, 4, 5, 6, 8, 12, 31]
KK_TESTS = ["complex", "real", "imaginary", "complex-inv", "real-inv", "imaginary-inv", "cnls"]
REQUIRED_CLASSES = {t: ["entry:kk", "entry:zhit", "entry:drt", "entry:fit", "entry:invalid", "outcome:result", "outcome:refused"] for t in ("quick", "thorough")}


def pred_kk_auto_tiny(case):
    """Automatic number-of-RC / extension search of the Kramers-Kronig code on 4-5 points (directly or through the Loewner DRT)."""
    if not isinstance(case, dict) or case.get("n", 99) > 5:
        return False
    o = case.get("opts", {})
    entry = case.get("call", case.get("entry"))
    if entry == "kk":
        return o.get("num_RC", 0) == 0
    return entry == "drt" and o.get("method") == "lm"


def pred_log_F_ext_outside(case):
    o = case.get("opts", {}) if isinstance(case, dict) else {}
    v = o.get("log_F_ext")
    return isinstance(v, (int, float)) and not isinstance(v, bool) and abs(v) > 1.0


PREDICATES = {"kk-automatic-on-4-or-5-points": pred_kk_auto_tiny, "log-F-ext-outside-search-range": pred_log_F_ext_outside}


def _data(n, seed=7):
    from pyimpspec import DataSet

    f = np.logspace(4, 4 - max(1.0, min(6.0, (n - 1) / 5.0)), n) if n > 1 else np.array([1000.0])
    Z = S.ladder(f, 20.0, [(100.0, 2e-3, 1.0), (50.0, 0.05, 0.85)])
    Z = S.add_noise(Z, 0.1, seed + n)
    return DataSet(f, Z)


def kk_grid():
    for test, adm, c, l, nrc, nf, rapid, n in itertools.product(KK_TESTS, [False, True, None], [False, True], [False, True], [0, 2, 6, 99], [-10, 0, 10, 14], [True, False], SIZES):
        if test == "cnls" and nrc == 0 and n > 12:
            continue
        if test == "cnls" and nf != 0 and n > 8:
            continue
        if nf == -10 and n > 12:
            continue  # differential evolution on larger spectra takes minutes
        if nf != 0 and nrc != 0 and (n + nrc) % 3:
            continue  # refused up front (extension search needs the automatic num_RC range): keep a third of them
        yield {"entry": "kk", "n": n, "opts": {"test": test, "admittance": adm, "add_capacitance": c, "add_inductance": l, "num_RC": nrc, "num_F_ext_evaluations": nf, "rapid_F_ext_evaluations": rapid}}


def zhit_grid():
    for sm, ip, adm, win, n in itertools.product(["none", "lowess", "savgol", "modsinc", "whithend", "auto"], ["akima", "makima", "cubic", "pchip", "auto"], [False, True], ["custom", "boxcar", "auto"], SIZES):
        if (sm == "auto" or ip == "auto" or win == "auto") and n > 12:
            continue
        yield {"entry": "zhit", "n": n, "opts": {"smoothing": sm, "interpolation": ip, "admittance": adm, "window": win}}


def drt_grid():
    for n in SIZES:
        for mode, lam in itertools.product(["real", "imaginary"], [1e-3, -1.0, -2.0]):
            yield {"entry": "drt", "n": n, "opts": {"method": "tr-nnls", "mode": mode, "lambda_value": lam}}
        for order, meth in itertools.product([0, 2], ["matrix_rank", "pseudo_chisqr"]):
            yield {"entry": "drt", "n": n, "opts": {"method": "lm", "model_order": order, "model_order_method": meth}}
        for rbf, attempts in itertools.product(["gaussian", "c2-matern", "cauchy"], [1, 2]):
            yield {"entry": "drt", "n": n, "opts": {"method": "bht", "rbf_type": rbf, "num_attempts": attempts, "num_samples": 100}}
        if n in (8, 12, 31):
            yield {"entry": "drt", "n": n, "opts": {"method": "mrq-fit", "cdc": "R(RQ)(RQ)"}}


FIT_METHODS = ["leastsq", "least_squares", "nelder", "lbfgsb", "powell", "cg", "bfgs", "tnc", "slsqp"]
FIT_WEIGHTS = ["unity", "modulus", "proportional", "boukamp"]


def fit_grid():
    for n in SIZES:
        for m, w in itertools.product(FIT_METHODS, FIT_WEIGHTS):
            yield {"entry": "fit", "n": n, "opts": {"method": m, "weight": w, "cdc": "R(RC)(RQ)"}}
        yield {"entry": "fit", "n": n, "opts": {"method": ["leastsq", "powell"], "weight": ["unity", "boukamp", "modulus"], "cdc": "R(RC)"}}
        yield {"entry": "fit", "n": n, "opts": {"method": "leastsq", "weight": ["proportional", "boukamp"], "cdc": "R(RQ)"}}
        if n in (12, 31):
            yield {"entry": "fit", "n": n, "opts": {"method": "auto", "weight": "auto", "cdc": "R(RC)"}}


def invalid_grid():
    bad_common = [None, "nope", -1, 1.5, [], 10**9]
    for v in bad_common:
        yield {"entry": "invalid", "n": 12, "call": "kk", "opts": {"test": v}}
        yield {"entry": "invalid", "n": 12, "call": "kk", "opts": {"num_RC": v}}
        yield {"entry": "invalid", "n": 12, "call": "kk", "opts": {"add_capacitance": v}}
        yield {"entry": "invalid", "n": 12, "call": "kk", "opts": {"admittance": v}}
        yield {"entry": "invalid", "n": 12, "call": "kk", "opts": {"num_F_ext_evaluations": v}}
        yield {"entry": "invalid", "n": 12, "call": "kk", "opts": {"log_F_ext": v, "num_F_ext_evaluations": 0}}
        yield {"entry": "invalid", "n": 12, "call": "kk", "opts": {"min_log_F_ext": v}}
        yield {"entry": "invalid", "n": 12, "call": "zhit", "opts": {"smoothing": v}}
        yield {"entry": "invalid", "n": 12, "call": "zhit", "opts": {"interpolation": v}}
        yield {"entry": "invalid", "n": 12, "call": "zhit", "opts": {"window": v}}
        yield {"entry": "invalid", "n": 12, "call": "zhit", "opts": {"num_points": v}}
        yield {"entry": "invalid", "n": 12, "call": "zhit", "opts": {"polynomial_order": v}}
        yield {"entry": "invalid", "n": 12, "call": "zhit", "opts": {"weights": v}}
        yield {"entry": "invalid", "n": 12, "call": "zhit", "opts": {"center": v, "window": "boxcar"}}
        yield {"entry": "invalid", "n": 12, "call": "drt", "opts": {"method": v}}
        yield {"entry": "invalid", "n": 12, "call": "drt", "opts": {"method": "tr-nnls", "mode": v}}
        yield {"entry": "invalid", "n": 12, "call": "drt", "opts": {"method": "tr-nnls", "lambda_value": v}}
        yield {"entry": "invalid", "n": 12, "call": "drt", "opts": {"method": "lm", "model_order": v}}
        yield {"entry": "invalid", "n": 12, "call": "drt", "opts": {"method": "bht", "rbf_type": v, "num_attempts": 1, "num_samples": 50}}
        yield {"entry": "invalid", "n": 12, "call": "fit", "opts": {"method": v, "cdc": "R(RC)"}}
        yield {"entry": "invalid", "n": 12, "call": "fit", "opts": {"weight": v, "cdc": "R(RC)"}}
        yield {"entry": "invalid", "n": 12, "call": "fit", "opts": {"max_nfev": v, "cdc": "R(RC)"}}
    for sm, npts, order in itertools.product(["savgol", "modsinc", "whithend", "lowess"], [0, 1, 2, 3, 4, 13, 40], [0, 1, 2, 3, 5, 12]):
        yield {"entry": "invalid", "n": 12, "call": "zhit", "opts": {"smoothing": sm, "num_points": npts, "polynomial_order": order, "window": "boxcar"}}


def _pairs(item):
    out = {("n", item["n"])}
    for k, v in item["opts"].items():
        out.add((k, repr(v)))
    return out


def _stride(ctx, gen, target):
    """Every k-th combination, topped up so that every value of every option (and every size) occurs at least once
    together with every entry point (covering array of strength one; the thorough tier runs the full product)."""
    items = list(gen)
    if ctx.tier == "thorough" or len(items) <= target:
        return items
    k = max(1, len(items) // target)
    off = ctx.seed % k
    chosen = items[off::k]
    have = set()
    for it in chosen:
        have |= _pairs(it)
    for it in items:
        p = _pairs(it)
        if not p <= have:
            chosen.append(it)
            have |= p
    return chosen


def cases(ctx):
    q = ctx.tier == "quick"
    out = []
    out += _stride(ctx, kk_grid(), 420 if q else 10**9)
    out += _stride(ctx, zhit_grid(), 200 if q else 10**9)
    out += _stride(ctx, drt_grid(), 110 if q else 10**9)
    out += _stride(ctx, fit_grid(), 140 if q else 10**9)
    out += _stride(ctx, invalid_grid(), 160 if q else 10**9)
    return out


# ---------------------------------------------------------------------------- oracle
def classify(exc) -> str:
    import pyimpspec.exceptions as X

    own = tuple(v for v in vars(X).values() if isinstance(v, type) and issubclass(v, Exception))
    frame = lib_frame(exc.__traceback__) or ""
    explicit = innermost_is_raise_in_lib(exc) and "progress.py" not in frame.split(":")[0]
    if isinstance(exc, own) and explicit:
        return "refused"
    if isinstance(exc, (TypeError, ValueError)) and explicit:
        return "refused"
    return "violation"


def call(case, data):
    from pyimpspec import calculate_drt, fit_circuit, parse_cdc, perform_kramers_kronig_test, perform_zhit

    entry = case.get("call", case["entry"])
    o = dict(case["opts"])
    if entry == "kk":
        return perform_kramers_kronig_test(data, num_procs=1, timeout=30, **o)
    if entry == "zhit":
        if o.get("window") == "custom":
            o.pop("window")
            n = data.get_num_points()
            w = np.zeros(n)
            w[: max(1, n // 2)] = 1.0
            o["weights"] = w
        return perform_zhit(data, num_procs=1, **o)
    if entry == "drt":
        o = dict(o)
        method = o.pop("method")
        if "cdc" in o:
            o["circuit"] = parse_cdc(o.pop("cdc"))
        if method == "bht":
            np.random.seed(1)
        if method in ("lm", "bht", "mrq-fit"):
            o["num_procs"] = 1
        return calculate_drt(data, method=method, **o)
    circuit = parse_cdc(o.pop("cdc"))
    for el in circuit.get_elements():
        if el.get_symbol() == "R":
            el.set_values(R=60.0)
        if el.get_symbol() == "C":
            el.set_values(C=2e-5)
        if el.get_symbol() == "Q":
            el.set_values(Y=5e-4, n=0.85)
    return fit_circuit(circuit, data, num_procs=1, **o)


def body(ctx, case):
    import pyimpspec.progress as P

    import time as _t

    t0 = _t.time()
    notes = []
    handle = P.register(lambda *a, **k: notes.append((a, k)))
    labels = {"entry:" + case["entry"], f"n:{case['n']}"}
    outcome = None
    try:
        data = _data(case["n"])
        try:
            res = call(case, data)
            outcome = "result"
            ok_type = hasattr(res, "frequencies") and hasattr(res, "pseudo_chisqr")
            ctx.check(ok_type, "returns-documented-result-type", case, f"returned {type(res).__name__}")
        except Exception as e:  # noqa: BLE001
            from vlib.timeouts import TimeLimit

            if isinstance(e, TimeLimit):
                raise
            kind = classify(e)
            late = max((k.get("progress", 0.0) for _, k in notes if isinstance(k.get("progress", 0.0), (int, float))), default=0.0)
            if kind == "refused" and isinstance(e, TypeError) and late > 0.0:
                kind = "violation"
                ctx.fail("type-error-after-work-started", case, f"TypeError after progress {late:.2f} was reported: {e}", kind=type(e).__name__, where=lib_frame(e.__traceback__) or "?")
            elif kind == "violation":
                ctx.fail("aborts-part-way", case, f"{type(e).__name__}: {str(e)[:300]}", kind=type(e).__name__, where=lib_frame(e.__traceback__) or "third-party")
            outcome = kind
    finally:
        P.unregister(handle)
    bad = []
    for a, k in notes:
        p = k.get("progress", None)
        m = k.get("message", None)
        if not (isinstance(p, (int, float)) and not isinstance(p, bool) and 0.0 <= float(p) <= 1.0 and isinstance(m, str)):
            bad.append((p, m))
    ctx.check(not bad, "progress-notifications-wellformed", case, f"{len(bad)} of {len(notes)} notifications malformed, e.g. progress={bad[0][0]!r} message={bad[0][1]!r}" if bad else "")
    ctx.observe("seconds:" + case["entry"] + (":" + str(case["opts"].get("test")) if case["entry"] == "kk" else ""), _t.time() - t0)
    labels.add("outcome:" + str(outcome))
    ctx.record(case, outcome == "result", sorted(labels), "refused" if outcome == "refused" else "violation")


def parts(ctx):
    return [Part("grids", body, items=cases, exhaustive=(ctx.tier == "thorough"), budget_s={"quick": 280, "thorough": 3000}, case_timeout_s=ctx.q(45, 240))]
