"""C07 — Kramers-Kronig tests reproduce exactly any spectrum of their own model (DESIGN.md section 4, C07).

The spectrum is computed by our own implementation of the test's equivalent circuit (vlib.gen_spectra.kk_model) at
our own replica of the test's time constants; the library must then return vanishing relative residuals and the
generating parameters.
"""
from __future__ import annotations

import itertools
import math

import numpy as np
from hypothesis import strategies as st

from vlib import gen_spectra as S
from vlib.runner import Part

PROPERTY = "C07"
RULE = (
    "test in {complex, real, imaginary, complex-inv, real-inv, imaginary-inv} (+ cnls on a narrowed domain) x {Z, Y} x "
    "add_capacitance x add_inductance (always on for the -inv variants) - all 40 variant combinations are cycled through "
    "before sampling - x Hypothesis-generated grids (1..8 decades incl. half decades, 3..20 points per decade, any position in 1e-4..1e7 Hz) x "
    "log_F_ext in [-1, 1] x num_RC from 2 up to 3 per decade of the extended tau range with unknowns <= 2/3 of the equations "
    "x generating R, R_k|C_k, C, L with random signs over 6 decades around a drawn scale. Oracle: max |relative residual| and "
    "pseudo chi-squared vanish (1e-7 least squares [max(.,10*eps*cond)], 1e-4 matrix inversion, ten times that for the imaginary variants, 1e-3 cnls), time constants equal our replica of "
    "eq. 12 (rel 1e-12), fitted parameters equal the generating ones within 1e3*eps*cond (cond of our replica of the "
    "equilibrated weighted design matrix; squared for the normal-equation variants). Non-trivial: the library returned a "
    "result and cond <= 1e9; distinct by SHA-1 of the case."
)
ASSUMPTIONS = [
    "the spectrum is generated with numpy complex128 by our own formulas (Boukamp 1995, Fig. 1 / Fig. 13) at our own replica of the time constants",
    "num_F_ext_evaluations=0 and an explicit num_RC: the test is run with exactly the generating number of RC elements and extension",
    "cnls is iterative and started from fixed defaults: only impedance-mode spectra whose generating parameters lie within a factor 3 of those start values are claimed for it",
]
SHARDS = {"quick": 8, "thorough": 16}
FLOOR = 0.4
EPS = 2.0**-52

LINEAR = ["complex", "real", "imaginary", "complex-inv", "real-inv", "imaginary-inv"]
VARIANTS = [
    (t, y, c, l)
    for t in LINEAR
    for y in (False, True)
    for c in (False, True)
    for l in ((True,) if t.endswith("-inv") else (False, True))
]
REQUIRED_CLASSES = {t: [f"variant:{v[0]}/{'Y' if v[1] else 'Z'}/C{int(v[2])}L{int(v[3])}" for v in VARIANTS] + ["cnls"] for t in ("quick", "thorough")}


@st.composite
def _params(draw, n, scale_exp):
    mag = st.floats(-3, 3, allow_nan=False).map(lambda e: 10.0 ** (e + scale_exp))
    sign = st.sampled_from([1.0, 1.0, -1.0])
    return [draw(sign) * draw(mag) for _ in range(n)]


@st.composite
def linear_case(draw, variant=None):
    test, adm, addC, addL = variant if variant is not None else draw(st.sampled_from(VARIANTS))
    g = draw(S.st_grid(min_decades=1))
    f = S.grid(g)
    N = len(f)
    log_F_ext = draw(st.floats(-1, 1, allow_nan=False).map(lambda x: round(x, 3)))
    decades_tau = g["decades"] + 2 * log_F_ext
    eqs = N if test.split("-")[0] in ("real", "imaginary") else 2 * N
    extra = 1 + int(addC) + int(addL)
    max_rc = min(int(3 * max(abs(decades_tau), 0.34)), int(2 * eqs / 3) - extra)  # a negative range is traversed in descending order
    if max_rc < 2:
        max_rc = 2
    num_RC = draw(st.integers(2, max_rc))
    scale = draw(st.floats(-3, 3, allow_nan=False)) if draw(st.integers(0, 2)) else draw(st.floats(-7, 7, allow_nan=False))  # overall unit scale
    R0 = draw(_params(1, scale))[0]
    if adm:
        # C_k are capacitances: choose them so that tau_k / C_k are resistances around the drawn scale
        coeffs = None
        rk = draw(_params(num_RC, scale))
    else:
        rk = draw(_params(num_RC, scale))
    w_mid = 2 * math.pi * math.sqrt(f.max() * f.min())
    C = draw(_params(1, 0.0))[0] / (w_mid * 10.0**scale) if addC else None
    L = draw(_params(1, 0.0))[0] * (10.0**scale) / w_mid if addL else None
    return {"test": test, "admittance": adm, "addC": addC, "addL": addL, "grid": g, "log_F_ext": log_F_ext, "num_RC": num_RC, "R0": R0, "rk": rk, "C": C, "L": L}


@st.composite
def cnls_case(draw):
    g = draw(S.st_grid(min_decades=3, max_decades=6, min_ppd=5, max_ppd=10, lo=-2.0, hi=5.0))
    u = st.floats(-0.45, 0.45, allow_nan=False).map(lambda e: 10.0**e)
    addC, addL = draw(st.booleans()), draw(st.booleans())
    n = draw(st.integers(2, 4))
    return {"test": "cnls", "admittance": False, "addC": addC, "addL": addL, "grid": g, "log_F_ext": draw(st.sampled_from([0.0, 0.0, -0.2, 0.3])), "num_RC": n,
            "R0": draw(u), "rk": [draw(u) for _ in range(n)], "C": 1e-6 * draw(u) if addC else None, "L": 1e-3 * draw(u) if addL else None}


def variant_cycle(ctx):
    """Every variant combination at least `reps` times, contents drawn by Hypothesis from (seed, variant, rep)."""
    for vi, v in enumerate(VARIANTS):
        for r in range(ctx.q(2, 12)):
            yield {"variant": vi, "rep": r}


def body_cycle(ctx, item):
    from hypothesis import HealthCheck, Phase, given, seed as hseed, settings

    from vlib.runner import derive_seed

    got = []

    @hseed(derive_seed(ctx.seed, "C07", item["variant"], item["rep"]))
    # Hypothesis always starts with the simplest example: take the fourth one
    @settings(max_examples=4, database=None, deadline=None, phases=[Phase.generate], suppress_health_check=list(HealthCheck))
    @given(linear_case(VARIANTS[item["variant"]]))
    def t(case):
        got.append(case)

    t()
    if got:
        body(ctx, got[-1])


def _fitted_vector(result, case):
    """Fitted coefficients in the parameterisation of the design-matrix columns: [R0|1/R0, R_k|C_k ..., 1/C|C, L|1/L]."""
    from pyimpspec.circuit.elements import Capacitor, Inductor, KramersKronigAdmittanceRC, KramersKronigRC, Resistor

    adm = case["admittance"]
    els = result.circuit.get_elements()
    R = [e for e in els if isinstance(e, Resistor)][0].get_value("R")
    ks = [e for e in els if isinstance(e, (KramersKronigRC, KramersKronigAdmittanceRC))]
    vec = [1 / R if adm else R]
    taus = []
    for k in ks:
        vec.append(k.get_value("C") if adm else k.get_value("R"))
        taus.append(k.get_value("tau"))
    if case["addC"]:
        C = [e for e in els if isinstance(e, Capacitor)][0].get_value("C")
        vec.append(C if adm else 1 / C)
    if case["addL"]:
        L = [e for e in els if isinstance(e, Inductor)][0].get_value("L")
        vec.append(1 / L if adm else L)
    return np.array(vec, dtype=float), np.array(taus, dtype=float)


def body(ctx, case):
    from pyimpspec import DataSet, perform_kramers_kronig_test
    from pyimpspec.exceptions import KramersKronigError

    test, adm = case["test"], case["admittance"]
    f = S.grid(case["grid"])
    taus = S.kk_taus(f, case["num_RC"], case["log_F_ext"])
    if adm:
        # generating capacitances C_k = tau_k / R_k
        coeffs = [t / r for t, r in zip(taus, case["rk"])]
    else:
        coeffs = list(case["rk"])
    Z = S.kk_model(f, taus, case["R0"], coeffs, case["C"], case["L"], admittance=adm)
    label = f"variant:{test}/{'Y' if adm else 'Z'}/C{int(case['addC'])}L{int(case['addL'])}" if test != "cnls" else "cnls"
    labels = [label]
    if not np.all(np.isfinite(Z)) or np.any(np.abs(Z) == 0):
        ctx.record(case, False, labels, "generated spectrum not finite")
        return
    X = 1 / Z if adm else Z
    # cancellation factor of the generating sum (random signs): rounding of the data itself is amplified by it
    w_ = 2 * math.pi * f
    terms = [np.full(f.shape, abs(1 / case["R0"] if adm else case["R0"]))] + [np.abs((1j * w_ * c if adm else c) / (1 + 1j * w_ * t)) for t, c in zip(taus, coeffs)]
    if case["C"] is not None:
        terms.append(np.abs(w_ * case["C"]) if adm else 1 / np.abs(w_ * case["C"]))
    if case["L"] is not None:
        terms.append(1 / np.abs(w_ * case["L"]) if adm else np.abs(w_ * case["L"]))
    kappa = float(np.max(np.sum(terms, axis=0) / np.abs(X)))
    ctx.observe("kappa:log10", math.log10(kappa))
    mode = test.split("-")[0] if test != "cnls" else "complex"
    cond = S.kk_design_cond(f, taus, case["addC"], case["addL"] or test.endswith("-inv"), adm, X, mode)
    ctx.observe("cond:log10", math.log10(cond) if cond > 0 and math.isfinite(cond) else 99)
    data = DataSet(f, Z)
    try:
        res = perform_kramers_kronig_test(
            data, test=test, num_RC=case["num_RC"], add_capacitance=case["addC"], add_inductance=case["addL"], admittance=adm,
            log_F_ext=case["log_F_ext"], num_F_ext_evaluations=0, num_procs=1, timeout=60,
        )
    except np.linalg.LinAlgError as e:
        # a singular normal matrix is only acceptable when our replica says the problem is ill-conditioned
        if math.isfinite(cond) and cond <= 1e5:
            ctx.fail("solver-fails-on-well-conditioned-problem", case, f"{label}: LinAlgError: {e} (cond {cond:.2e})")
        ctx.record(case, False, labels, "singular matrix reported by the solver")
        return
    except (KramersKronigError, ValueError) as e:
        from vlib.runner import innermost_is_raise_in_lib

        if innermost_is_raise_in_lib(e):
            ctx.record(case, False, labels, "refused: " + type(e).__name__)
            return
        raise
    inv = test.endswith("-inv")
    # the imaginary variants determine the series/parallel resistance afterwards from a weighted mean of the real
    # residual, which amplifies the rounding of the R_k|C_k: one order of magnitude more is allowed for them
    imag = test.startswith("imaginary")
    tol = 1e-3 if test == "cnls" else ((1e-3 if imag else 1e-4) if inv else max(1e-6 if imag else 1e-7, (1e5 if imag else 10) * EPS * cond))
    tol = max(tol, 100 * EPS * kappa * (cond if not inv else 1.0))
    well = math.isfinite(cond) and cond <= (1e9 if not inv else 1e5) and kappa <= 1e4
    worst = float(np.max(np.abs(res.residuals)))
    ctx.observe(f"max-residual:{'cnls' if test == 'cnls' else ('inv' if inv else 'lstsq')}", worst)
    if not well:
        ctx.record(case, False, labels, "ill-conditioned design matrix (cond > 1e9; 1e5 for the normal equations) or cancellation-dominated spectrum (kappa > 1e4)")
        return
    N = len(f)
    ctx.check(worst <= tol, "residuals-vanish", case, f"{label}: max |relative residual| = {worst:.3e} (cond {cond:.2e}, num_RC {case['num_RC']}, N {N})")
    ctx.check(res.pseudo_chisqr <= tol**2 * 2 * N, "pseudo-chisqr-vanishes", case, f"{label}: pseudo chi-squared {res.pseudo_chisqr:.3e}")
    # time constants: result API and the circuit's elements
    tc = np.sort(np.asarray(res.get_time_constants(), dtype=float))
    ts = np.sort(taus)  # a contraction stronger than the width of the grid traverses the range in descending order
    reversed_range = taus[0] > taus[-1]
    ctx.check(tc.shape == ts.shape and bool(np.all(np.abs(tc - ts) <= 1e-12 * ts)), "time-constants", case, f"{label}: time constants {tc[:3]}... != eq. 12 {ts[:3]}...")
    ctx.check(res.get_num_RC() == case["num_RC"] and bool(res.was_tested_on_admittance()) == adm and (reversed_range or abs(res.get_log_F_ext() - case["log_F_ext"]) <= 1e-9), "result-metadata", case,
              f"{label}: num_RC {res.get_num_RC()}, admittance {res.was_tested_on_admittance()}, log_F_ext {res.get_log_F_ext()}")
    # parameter recovery in the design-matrix parameterisation, column-equilibrated
    want = [1 / case["R0"] if adm else case["R0"]] + coeffs
    case_L = case["addL"] or inv
    if case["addC"]:
        want.append(case["C"] if adm else 1 / case["C"])
    if case_L:
        want.append((1 / case["L"] if adm else case["L"]) if case["L"] is not None else 0.0)
    want = np.array(want, dtype=float)
    c2 = dict(case, addL=case_L)
    try:
        got, taus_fit = _fitted_vector(res, c2)
    except Exception as e:  # noqa: BLE001
        ctx.crash("parameters-recovered", case, e)
        ctx.record(case, True, labels)
        return
    if case["L"] is None and case_L:
        # -inv always fits an inductance: the generating model has none, i.e. coefficient 0 (L=0 in Z mode; 1/L -> the
        # library reports its sentinel value): leave that coefficient out of the comparison
        got, want = got[:-1], want[:-1]
    w = 2 * math.pi * f
    jw = 1j * w
    cols = [np.ones(w.shape, dtype=complex)] + [(jw / (1 + jw * t)) if adm else (1 / (1 + jw * t)) for t in taus]
    if case["addC"]:
        cols.append(jw if adm else 1 / jw)
    if case["L"] is not None:
        cols.append(1 / jw if adm else jw)
    A = np.array(cols).T / np.abs(X)[:, None]
    norms = np.linalg.norm(np.vstack([A.real, A.imag]), axis=0)
    bound = max((1e-3 if inv else 1e-5) if test.startswith("imaginary") else 1e-7, (1e5 if test.startswith("imaginary") else 1e4) * EPS * (cond**2 if inv else cond)) if test != "cnls" else 1e-2
    if bound <= 1e-3 and got.shape == want.shape:
        err = float(np.linalg.norm((got - want) * norms) / max(np.linalg.norm(want * norms), 1e-300))
        ctx.observe("parameter-error/bound", err / bound)
        ctx.check(err <= bound, "parameters-recovered", case, f"{label}: scaled parameter error {err:.3e} > {bound:.3e}; fitted {got[:4]}..., generating {want[:4]}...")
        labels.append("parameters-judged")
    else:
        ctx.check(got.shape == want.shape, "parameters-recovered", case, f"{label}: {got.shape} fitted coefficients for {want.shape} generating ones")
    ctx.record(case, True, labels)


def parts(ctx):
    return [
        Part("variants-cycle", body_cycle, items=variant_cycle, exhaustive=False, budget_s={"quick": 120, "thorough": 900}),
        Part("linear", body, strategy=linear_case(), n={"quick": 6000, "thorough": 80000}, budget_s={"quick": 120, "thorough": 1500}),
        Part("cnls", body, strategy=cnls_case(), n={"quick": 24, "thorough": 500}, budget_s={"quick": 120, "thorough": 1500}, case_timeout_s=120),
    ]
