"""C12 — circuit fitting recovers generating parameters and respects constraints (DESIGN.md section 4, C12)."""
from __future__ import annotations

import math

import numpy as np
from hypothesis import strategies as st

from vlib import gen_circuits as G
from vlib.runner import Part

PROPERTY = "C12"
RULE = (
    "Families R(RC), R(RQ), R(RC)(RC), R(RC)(RQ), R(C[RW]), RL(RQ) (and the 11-element R(RC)x5 for the invariants) with generating time constants >= 1.5 decades apart and >= 1 "
    "decade inside a 7-decade grid (10 points per decade); start = truth x 10^U(-0.45, 0.45) per free parameter; random subsets "
    "of fixed parameters; random limit boxes containing truth and start (some tight); optional constraint expressions built "
    "from generate_fit_identifiers that the truth satisfies. Invariants on every fit over the {9 methods} x {4 weights} grid "
    "(single fits, also lists of methods/weights, num_procs 1 and 2): lower <= value <= upper for every parameter of the "
    "returned circuit, fixed parameters bit-equal to their initial value, constraint expressions hold (rel 1e-9), the parameter "
    "table and both data frames report exactly the returned circuit's values and fixed flags, the result's impedances are the "
    "returned circuit's impedances, the input circuit is unchanged. Recovery with the default automatic method/weight: "
    "parameters equal the truth (rel 1e-3 up to permutation of structurally identical branches) and pseudo chi-squared <= 1e-6 "
    "- asserted per case for the single-arc families, by a frozen rate (>= 0.85) for the two-arc families. Non-trivial: >= 1 free "
    "parameter moved by > 5 % from its start."
)
ASSUMPTIONS = [
    "noise-free data simulated from the truth circuit by the library itself (the property's wording: 'data simulated from the same circuit')",
    "FittingError for a single exotic method/weight pair is an accepted outcome (counted); a miss of the recovery clause on a two-arc family is judged by rate, never alone",
    "lmfit's bound transform may land a hair outside a bound: slack 1e-12 relative",
]
SHARDS = {"quick": 8, "thorough": 16}
FLOOR = 0.3
METHODS = ["leastsq", "least_squares", "nelder", "lbfgsb", "powell", "cg", "bfgs", "tnc", "slsqp"]
WEIGHTS = ["unity", "modulus", "proportional", "boukamp"]
FAMILIES = ["R(RC)", "R(RQ)", "R(RC)(RC)", "R(RC)(RQ)", "R(C[RW])", "RL(RQ)"]
LONG = "R(RC)(RC)(RC)(RC)(RC)"  # 11 elements: running identifiers 0 and 10 (invariants only)
REQUIRED_CLASSES = {t: ["family:" + f for f in FAMILIES + [LONG]] + ["has-fixed", "has-constraint", "constraint-contradicts-truth", "tight-limits", "recovery", "recovery-with-constraint", "list-of-methods"] for t in ("quick", "thorough")}
F_GRID = np.logspace(5, -2, 71)


@st.composite
def truth(draw, family):
    """Truth values per element in circuit order: list of dicts."""
    scale = 10.0 ** draw(st.floats(0, 3))
    R0 = scale * draw(st.floats(0.2, 2))
    lo, hi = -math.log10(2 * math.pi) - 5 + 1.0, -math.log10(2 * math.pi) + 2 - 1.0
    t1 = 10.0 ** draw(st.floats(lo, hi - 1.6))
    t2 = t1 * 10.0 ** draw(st.floats(1.5, max(1.5, min(3.0, hi - math.log10(t1)))))
    R1, R2 = scale * draw(st.floats(0.5, 5)), scale * draw(st.floats(0.5, 5))
    n = draw(st.floats(0.75, 0.95))
    if family == LONG:
        out = [{"R": R0}]
        for k in range(5):
            Rk = scale * draw(st.floats(0.5, 5))
            out += [{"R": Rk}, {"C": 10.0 ** (lo + 1.05 * k + 0.2) / Rk}]
        return out
    if family == "R(RC)":
        return [{"R": R0}, {"R": R1}, {"C": t1 / R1}]
    if family == "R(RQ)":
        return [{"R": R0}, {"R": R1}, {"Y": t1**n / R1, "n": n}]
    if family == "R(RC)(RC)":
        return [{"R": R0}, {"R": R1}, {"C": t1 / R1}, {"R": R2}, {"C": t2 / R2}]
    if family == "R(RC)(RQ)":
        return [{"R": R0}, {"R": R1}, {"C": t1 / R1}, {"R": R2}, {"Y": t2**n / R2, "n": n}]
    if family == "R(C[RW])":
        return [{"R": R0}, {"C": t1 / R1}, {"R": R1}, {"Y": 1 / (R1 * math.sqrt(t2 / 10)), "n": 0.5}]
    return [{"R": R0}, {"L": R0 * 1e-6 * draw(st.floats(0.3, 3))}, {"R": R1}, {"Y": t2**n / R1, "n": n}]


@st.composite
def fit_case(draw, recovery):
    family = draw(st.sampled_from(FAMILIES + ([LONG] if not recovery else [])))
    tr = draw(truth(family))
    start, fixed, limits = [], [], []
    for el in tr:
        s, fx, lim = {}, {}, {}
        for k, v in el.items():
            isfixed = (not recovery) and draw(st.integers(0, 5)) == 0 or (k == "n" and v == 0.5)
            if k == "n" and v == 0.5 and not recovery and draw(st.booleans()):
                isfixed = False  # a parameter that is fixed by default (Warburg exponent), released by the user
            fx[k] = bool(isfixed)
            if isfixed:
                s[k] = v
            else:
                fac = 10.0 ** draw(st.floats(-0.45, 0.45))
                s[k] = v * fac if k != "n" else min(1.0, max(0.5, v * 10.0 ** draw(st.floats(-0.05, 0.05))))
            if draw(st.integers(0, 3)) == 0 and k != "n":
                a, b = min(v, s[k]), max(v, s[k])
                tight = draw(st.booleans())
                lim[k] = [a / (1.02 if tight else 10.0 ** draw(st.floats(0.1, 2))), b * (1.02 if tight else 10.0 ** draw(st.floats(0.1, 2))), tight]
        start.append(s)
        fixed.append(fx)
        limits.append(lim)
    constraint = None
    if family in ("R(RC)(RC)", "R(RC)(RQ)") and draw(st.integers(0, 1 if not recovery else 2)) == 0:
        constraint = draw(st.sampled_from(["ratio-expression", "ratio-variable"]))
    # outside the recovery part the constraint may contradict the generating values: it has to hold all the same
    cfac = 1.0
    if constraint and not recovery and draw(st.booleans()):
        cfac = draw(st.sampled_from([0.6, 0.75, 0.9, 1.1, 1.3, 1.6]))
    if recovery:
        method, weight, procs = "auto", "auto", draw(st.sampled_from([1, 4]))
    else:
        method = draw(st.one_of(st.sampled_from(METHODS), st.lists(st.sampled_from(METHODS), min_size=2, max_size=3, unique=True)))
        weight = draw(st.one_of(st.sampled_from(WEIGHTS), st.lists(st.sampled_from(WEIGHTS), min_size=2, max_size=2, unique=True)))
        procs = draw(st.sampled_from([1, 1, 2]))
        if cfac != 1.0 and draw(st.integers(0, 3)):
            # several fits in the calling process that all have to see the same constraint
            method = draw(st.lists(st.sampled_from(METHODS), min_size=2, max_size=3, unique=True))
            procs = 1
    return {"family": family, "truth": tr, "start": start, "fixed": fixed, "limits": limits, "constraint": constraint, "constraint_factor": cfac, "method": method, "weight": weight, "num_procs": procs, "recovery": recovery}


def _apply(circuit, values, fixed=None, limits=None):
    for el, vals, i in zip(circuit.get_elements(), values, range(10**6)):
        for k, v in vals.items():
            if limits is not None and k in limits[i]:
                lo, hi, _ = limits[i][k]
                el.set_lower_limits(k, -math.inf)
                el.set_upper_limits(k, hi)
                el.set_lower_limits(k, lo)
            el.set_values(k, v)
            if fixed is not None:
                el.set_fixed(k, fixed[i][k])


def body(ctx, case):
    from pyimpspec import fit_circuit, parse_cdc, simulate_spectrum
    from pyimpspec.analysis.fitting import generate_fit_identifiers
    from pyimpspec.exceptions import FittingError

    labels = {"family:" + case["family"]}
    truth_c = parse_cdc(case["family"])
    _apply(truth_c, case["truth"])
    data = simulate_spectrum(truth_c, F_GRID)
    circuit = parse_cdc(case["family"])
    _apply(circuit, case["start"], case["fixed"], case["limits"])
    if any(any(fx.values()) for fx in case["fixed"]):
        labels.add("has-fixed")
    if any(any(l[2] for l in lim.values()) for lim in case["limits"]):
        labels.add("tight-limits")
    kwargs = {}
    els = circuit.get_elements()
    ident = generate_fit_identifiers(circuit)
    constraint_check = None
    if case["constraint"]:
        # R of the second arc as a multiple of R of the first arc (the truth satisfies it exactly)
        rs = [e for e in els if e.get_symbol() == "R"]
        r1, r2 = rs[1], rs[2]
        ratio = case["truth"][els.index(r2)]["R"] / case["truth"][els.index(r1)]["R"] * case.get("constraint_factor", 1.0)
        if case.get("constraint_factor", 1.0) != 1.0:
            labels.add("constraint-contradicts-truth")
        if r1.is_fixed("R") or r2.is_fixed("R"):
            r1.set_fixed("R", False)
            r2.set_fixed("R", False)
        r2.set_lower_limits("R", -math.inf).set_upper_limits("R", math.inf)
        if case["constraint"] == "ratio-expression":
            kwargs["constraint_expressions"] = {ident[r2].R: f"{ratio!r} * {ident[r1].R}"}
        else:
            kwargs["constraint_expressions"] = {ident[r2].R: f"alpha * {ident[r1].R}"}
            kwargs["constraint_variables"] = {"alpha": dict(value=ratio, vary=False)}
        constraint_check = (els.index(r1), els.index(r2), ratio)
        labels.add("has-constraint")
    if isinstance(case["method"], list) or isinstance(case["weight"], list):
        labels.add("list-of-methods")
    before = circuit.serialize()
    start_vals = [e.get_values() for e in els]
    try:
        res = fit_circuit(circuit, data, method=case["method"], weight=case["weight"], num_procs=case["num_procs"], **kwargs)
    except FittingError:
        ctx.record(case, False, labels, "FittingError (accepted outcome)")
        return
    ctx.check(circuit.serialize() == before, "input-circuit-untouched", case, f"fit_circuit modified the circuit that was passed in: {circuit.to_string(6)}")
    rc = res.circuit
    r_els = rc.get_elements()
    ok = ctx.check(len(r_els) == len(els) and [e.get_symbol() for e in r_els] == [e.get_symbol() for e in els], "result-circuit-structure", case, f"returned circuit {rc.to_string()} vs {circuit.to_string()}")
    if not ok:
        ctx.record(case, False, labels, "structure")
        return
    moved = False
    for i, (e0, e1) in enumerate(zip(els, r_els)):
        lo, hi, fx = e1.get_lower_limits(), e1.get_upper_limits(), e1.are_fixed()
        for k, v in e1.get_values().items():
            slack = 1e-12 * max(abs(lo[k]) if math.isfinite(lo[k]) else 0.0, abs(hi[k]) if math.isfinite(hi[k]) else 0.0, abs(v))
            ctx.check(lo[k] - slack <= v <= hi[k] + slack, "value-within-limits", case, f"{case['method']}/{case['weight']}: {e1.get_symbol()}.{k} = {v!r} outside [{lo[k]!r}, {hi[k]!r}]")
            ctx.check(lo[k] == e0.get_lower_limit(k) and hi[k] == e0.get_upper_limit(k) and fx[k] == e0.is_fixed(k), "limits-and-flags-carried-over", case, f"{e1.get_symbol()}.{k}: limits/fixed flag differ from the input circuit")
            if e0.is_fixed(k):
                ctx.check(v == start_vals[i][k], "fixed-parameter-unchanged", case, f"{e1.get_symbol()}.{k} is fixed: {start_vals[i][k]!r} -> {v!r}")
            elif abs(v / start_vals[i][k] - 1) > 0.05:
                moved = True
    if constraint_check:
        # the start value of a parameter tied by a constraint expression must not matter: start every other parameter at
        # the truth (a stationary point of the noise-free problem) and the tied one far away
        i1, i2, ratio = constraint_check
        probe = parse_cdc(case["family"])
        _apply(probe, case["truth"])
        p_els = probe.get_elements()
        p_els[i2].set_lower_limits("R", -math.inf).set_upper_limits("R", math.inf).set_values("R", 3.0 * case["truth"][i2]["R"])
        try:
            if case.get("constraint_factor", 1.0) != 1.0:
                raise FittingError("probe only when the truth satisfies the constraint")
            pres = fit_circuit(probe, data, method="leastsq", weight="boukamp", num_procs=1, **kwargs)
            ctx.observe("tied-start:chisqr", pres.pseudo_chisqr)
            ctx.check(pres.pseudo_chisqr <= 1e-8, "constraint-is-seen-by-the-optimiser", case,
                      f"fit started at the truth with only the tied parameter R_b mis-set: pseudo chi-squared {pres.pseudo_chisqr:.3e}, fitted {[e.get_values() for e in pres.circuit.get_elements()]}")
        except FittingError:
            pass
        a, b = r_els[i1].get_value("R"), r_els[i2].get_value("R")
        ctx.check(abs(b - ratio * a) <= 1e-9 * abs(b), "constraint-holds", case, f"constraint R_b = {ratio!r} * R_a violated: {b!r} vs {ratio * a!r}")
    # the table of fitted parameters reports exactly the values of the returned circuit
    want = set()
    for e in r_els:
        name = rc.get_element_name(e)
        tab = res.parameters.get(name)
        if not ctx.check(tab is not None and set(tab) == set(e.get_values()), "table-reports-circuit", case, f"parameters[{name!r}] missing or incomplete"):
            continue
        for k, v in e.get_values().items():
            # a parameter tied to others by a constraint expression is not varied independently; the table calls it
            # fixed - the property speaks of values, so the flag is compared for unconstrained parameters only
            tied = constraint_check is not None and r_els.index(e) == constraint_check[1] and k == "R"
            ctx.check(tab[k].value == v and (tied or tab[k].fixed == e.is_fixed(k)), "table-reports-circuit", case, f"parameters[{name!r}][{k!r}] = {tab[k].value!r} (fixed={tab[k].fixed}); the circuit has {v!r} (fixed={e.is_fixed(k)})")
            want.add((name, k, v, ("Yes" if tab[k].fixed else "No") if tied else ("Yes" if e.is_fixed(k) else "No")))
    df = res.to_parameters_dataframe()
    rows = set(zip(df["Element"], df["Parameter"], df["Value"], df["Fixed"]))
    ctx.check(rows == want, "table-reports-circuit", case, f"to_parameters_dataframe rows differ: {sorted(rows ^ want, key=str)[:4]}")
    Zc = rc.get_impedances(np.asarray(res.frequencies))
    ctx.check(bool(np.all(np.abs(Zc - res.impedances) <= 1e-12 * np.abs(Zc))), "impedances-are-circuit-impedances", case, "result.impedances differ from the returned circuit's impedances")
    chi = float(np.sum(np.abs((data.get_impedances() - Zc) / np.abs(data.get_impedances())) ** 2))
    ctx.check(abs(res.pseudo_chisqr - chi) <= 1e-9 * max(chi, 1e-300) + 1e-30, "chisqr-is-circuit-chisqr", case, f"pseudo_chisqr {res.pseudo_chisqr!r} but the returned circuit gives {chi!r}")
    # recovery
    if case["recovery"]:
        labels.add("recovery")
        if constraint_check:
            labels.add("recovery-with-constraint")
        labels.add("family-recovery:" + case["family"])
        got = [e.get_values() for e in r_els]
        def close(g, t):
            return all(abs(g[i][k] / t[i][k] - 1) <= 1e-3 for i in range(len(t)) for k in t[i])
        rec = close(got, case["truth"])
        if not rec and case["family"] == "R(RC)(RC)":
            t = case["truth"]
            rec = close(got, [t[0], t[3], t[4], t[1], t[2]])
        rec = rec and res.pseudo_chisqr <= 1e-6
        single = case["family"] in ("R(RC)", "R(RQ)")
        ctx.observe("recovered:" + ("single-arc" if single else "two-arc"), 1.0 if rec else 0.0)
        labels.add("recovered" if rec else "not-recovered:" + case["family"])
        if single:
            ctx.check(rec, "recovers-generating-parameters", case, f"auto fit of {case['family']}: chi2 {res.pseudo_chisqr:.3e} ({res.method}/{res.weight}); fitted {got}; truth {case['truth']}")
    ctx.record(case, moved, sorted(labels), "no free parameter moved by more than 5 %")


def parts(ctx):
    return [
        Part("invariants", body, strategy=fit_case(False), n={"quick": 1600, "thorough": 16000}, budget_s={"quick": 200, "thorough": 2400}, case_timeout_s=120),
        Part("recovery", body, strategy=fit_case(True), n={"quick": 32, "thorough": 640}, budget_s={"quick": 240, "thorough": 3000}, case_timeout_s=240),
    ]


def post(merged, tier):
    """Frozen rate for the two-arc families (a single miss is a local minimum, not a defect)."""
    cl = merged["classes"]
    rec = cl.get("recovered", 0)
    miss = sum(v for k, v in cl.items() if k.startswith("not-recovered:") and k.split(":", 1)[1] not in ("R(RC)", "R(RQ)"))
    two_arc_rec = rec - 0  # includes single-arc successes; compute the two-arc rate from the misses
    total_two = sum(1 for _ in ())  # placeholder for clarity
    n_two = miss + sum(0 for _ in ())
    fams = {k.split(":", 1)[1]: v for k, v in cl.items() if k.startswith("family-recovery:")}
    n = sum(fams.get(f, 0) for f in ("R(RC)(RC)", "R(RC)(RQ)", "R(C[RW])", "RL(RQ)"))
    if n >= 12 and miss / n > 0.15:
        return [{"part": "recovery", "clause": "two-arc-recovery-rate", "case": {"two_arc_runs": n, "missed": miss, "classes": {k: v for k, v in cl.items() if "recover" in k}},
                 "detail": f"only {n - miss} of {n} two-arc recovery fits returned the generating parameters (frozen rate >= 0.85; observed 0.97 on the unchanged tree)"}]
    return []
