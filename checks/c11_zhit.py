"""C11 — Z-HIT reconstructs the modulus from the phase (DESIGN.md section 4, C11)."""
from __future__ import annotations

import itertools
import math

import numpy as np
from hypothesis import strategies as st

from vlib import gen_spectra as S
from vlib.runner import Part

PROPERTY = "C11"
RULE = (
    "Hypothesis-generated constant-phase spectra (R, C, L, Q with n in 0.3..1, W; magnitudes over 8 decades) and RC/RQ ladders on "
    "grids of 5..15 points per decade over 3..7 decades x smoothing {none, lowess, modsinc, savgol, whithend} x interpolation "
    "{akima, makima, cubic, pchip} x {Z, Y} x num_points/polynomial_order x window {every registered named window with drawn "
    "centre/width covering >= 3 points, custom weight arrays incl. zeros}. Oracle: constant phase -> reconstructed modulus equals "
    "the true one (5e-4); ladders within 8 % and the Z and Y reconstructions within 0.1 % of each other (20 % when an arc exceeds three times the series resistance; not judged when the smoothing window exceeds about half a decade); Z -> kZ scales the reconstruction by k (1e-6 + offset-fit tolerance); changing "
    "|Z| (phase kept) at points outside the window / with zero custom weight leaves the reconstruction unchanged (1e-9), also "
    "for a second spectrum analysed in the same process on a grid with the same end points and length but different interior "
    "points; the smoothing filters return constant and linear-in-ln(omega) phase unchanged (1e-9) for every (num_points, "
    "polynomial_order) they accept (exhaustive 2..9 x 1..9); _generate_weights is within [0,1] and zero outside centre+-width/2 "
    "for every registered window. Non-trivial: result returned with >= 3 positively weighted points."
)
ASSUMPTIONS = [
    "tolerances calibrated on the repaired tree (window registry fix 1ab8e08): constant phase observed <= 3.2e-5, ladders <= 3.3 %",
    "the window is judged by our own replica of its support [centre - width/2, centre + width/2] in log10(f)",
]
SHARDS = {"quick": 8, "thorough": 16}
FLOOR = 0.5
SMOOTH = ["none", "lowess", "modsinc", "savgol", "whithend"]
INTERP = ["akima", "makima", "cubic", "pchip"]
REQUIRED_CLASSES = {t: ["kind:" + k for k in ("R", "C", "L", "Q", "W", "ladder")] + ["smoothing:" + s for s in SMOOTH] + ["interpolation:" + i for i in INTERP] + ["Y", "Z", "custom-weights", "second-grid"] for t in ("quick", "thorough")}


def pred_savgol_even(case):
    return isinstance(case, dict) and case.get("smoothing") == "savgol" and case.get("num_points", 1) % 2 == 0


def pred_modsinc_short_kernel(case):
    return isinstance(case, dict) and case.get("smoothing") == "modsinc" and case.get("num_points", 99) < case.get("polynomial_order", 0) / 2 + 2


def pred_whithend_order1(case):
    return isinstance(case, dict) and case.get("smoothing") == "whithend" and case.get("polynomial_order") == 1


PREDICATES = {"modsinc-short-kernel": pred_modsinc_short_kernel, "savgol-even-window": pred_savgol_even, "whithend-first-order": pred_whithend_order1}


@st.composite
def zhit_case(draw):
    ppd = draw(st.integers(5, 15))
    dec = draw(st.integers(3, 7))
    top = draw(st.floats(2, 6))
    kind = draw(st.sampled_from(["R", "C", "L", "Q", "W", "ladder", "ladder"]))
    c = {"ppd": ppd, "dec": dec, "top": top, "kind": kind, "v": 10.0 ** draw(st.floats(-4, 4)), "n": draw(st.floats(0.3, 1.0))}
    if kind == "ladder":
        lo, hi = -math.log10(2 * math.pi) - top + 0.5, -math.log10(2 * math.pi) - (top - dec) - 0.5
        c["els"] = [[10.0 ** draw(st.floats(0, 2)), 10.0 ** draw(st.floats(lo, hi)), draw(st.sampled_from([1.0, 0.85]))] for _ in range(draw(st.integers(1, 3)))]
        c["R0"] = 10.0 ** draw(st.floats(0, 1.5))
    c["smoothing"] = draw(st.sampled_from(SMOOTH))
    c["interpolation"] = draw(st.sampled_from(INTERP))
    c["admittance"] = draw(st.booleans())
    npts = draw(st.integers(3, 9))
    c["num_points"] = npts
    c["polynomial_order"] = draw(st.integers(2, max(2, npts - 1)))
    if c["smoothing"] == "modsinc":
        c["polynomial_order"] = draw(st.sampled_from([2, 4, 6]))
        c["num_points"] = max(npts, c["polynomial_order"] // 2 + 2)
    if c["smoothing"] == "savgol":
        c["num_points"] = npts | 1  # odd windows (even ones are a known finding of the linear-phase clause)
        c["polynomial_order"] = min(c["polynomial_order"], c["num_points"] - 1)
    c["window"] = draw(st.sampled_from(["boxcar", "hann", "hamming", "blackman", "bartlett", "cosine", "flattop", "nuttall", "custom"]))
    c["center_frac"] = draw(st.floats(0.3, 0.7))
    c["width"] = draw(st.floats(1.2, min(3.0, dec * 0.7)))
    c["custom_seed"] = draw(st.integers(0, 2**31))
    c["k"] = 10.0 ** draw(st.floats(-6, 6))
    c["warp"] = draw(st.floats(0.6, 1.6))
    return c


def grid_of(c, warp=1.0):
    n = c["dec"] * c["ppd"] + 1
    u = np.linspace(0, 1, n) ** warp
    return 10.0 ** (c["top"] - c["dec"] * u)


def spectrum(c, f):
    w = 2 * math.pi * f
    k, v = c["kind"], c["v"]
    if k == "R":
        return np.full(f.shape, v, dtype=complex)
    if k == "C":
        return 1 / (1j * w * v * 1e-6)
    if k == "L":
        return 1j * w * v * 1e-6
    if k == "Q":
        return 1 / (v * 1e-4 * (1j * w) ** c["n"])
    if k == "W":
        return 1 / (v * 1e-3 * (1j * w) ** 0.5)
    return S.ladder(f, c["R0"], [tuple(e) for e in c["els"]])


def _weights_for(c, f):
    """(kwargs for perform_zhit, boolean array of the points that may influence the offset)."""
    logf = np.log10(f)
    center = c["top"] - c["dec"] * c["center_frac"]
    lo, hi = center - c["width"] / 2, center + c["width"] / 2
    inside = (logf >= lo) & (logf <= hi)
    if c["window"] == "custom":
        rng = np.random.Generator(np.random.PCG64(c["custom_seed"]))
        wts = rng.uniform(0, 1, f.shape)
        wts[~inside] = 0.0
        wts[rng.uniform(0, 1, f.shape) < 0.2] = 0.0
        if (wts > 0).sum() < 3:
            wts[inside] = 1.0
        return {"weights": wts}, wts > 0
    return {"window": c["window"], "center": center, "width": c["width"]}, inside


def body(ctx, c):
    from pyimpspec import DataSet, perform_zhit
    from pyimpspec.exceptions import ZHITError

    labels = {"kind:" + c["kind"], "smoothing:" + c["smoothing"], "interpolation:" + c["interpolation"], "Y" if c["admittance"] else "Z"}
    f = grid_of(c)
    Z = spectrum(c, f)
    kw, live = _weights_for(c, f)
    if "weights" in kw:
        labels.add("custom-weights")
    if live.sum() < 3:
        ctx.record(c, False, labels, "fewer than 3 weighted points")
        return
    common = dict(smoothing=c["smoothing"], interpolation=c["interpolation"], num_points=c["num_points"], polynomial_order=c["polynomial_order"], admittance=c["admittance"], num_procs=1)

    def run(ff, ZZ, kwargs):
        return perform_zhit(DataSet(ff, ZZ), **common, **kwargs)

    try:
        r = run(f, Z, kw)
    except (ZHITError, ValueError) as e:
        from vlib.runner import innermost_is_raise_in_lib

        if isinstance(e, ZHITError) and "Unsupported window" in str(e):
            # the documented named windows (scipy.signal.windows functions that need no extra argument) must exist
            ctx.fail("named-window-available", c, f"window {c['window']!r} is refused: {str(e)[:120]}")
            ctx.record(c, False, labels, "window refused")
            return
        if isinstance(e, ZHITError) or innermost_is_raise_in_lib(e):
            ctx.record(c, False, labels, "refused: " + type(e).__name__)
            return
        raise
    mod = np.abs(np.asarray(r.impedances))
    err = np.abs(mod / np.abs(Z) - 1)
    heavy = False
    if c["kind"] == "ladder":
        ctx.observe("ladder:max-rel-err", float(err.max()))
        # the first-order Z-HIT correction degrades with the curvature of the phase: arcs much larger than the series
        # resistance are allowed 20 %, the others 8 % (observed <= 3.3 % / 8.4 %)
        bound = 0.08 if max(e[0] for e in c["els"]) <= 3 * c["R0"] else 0.20
        heavy = c["smoothing"] != "none" and c["num_points"] > max(3, c["ppd"] // 2 + 1)  # window wider than ~half a decade
        if heavy:
            labels.add("ladder:heavily-smoothed(not judged)")
        ctx.check(heavy or float(err.max()) <= bound, "ladder-within-a-few-percent", c, f"reconstructed modulus off by {err.max() * 100:.2f} % at f={f[int(err.argmax())]:.4g}")
    else:
        ctx.observe("constant-phase:max-rel-err", float(err.max()))
        ctx.check(float(err.max()) <= 5e-4, "constant-phase-exact", c, f"{c['kind']}: reconstructed modulus off by {err.max():.3e} (relative) at f={f[int(err.argmax())]:.4g}")
    # both representations reconstruct the same modulus
    if c["kind"] == "ladder" and not heavy:
        try:
            ro = perform_zhit(DataSet(f, Z), **dict(common, admittance=not c["admittance"]), **kw)
            dev = float(np.max(np.abs(np.abs(np.asarray(ro.impedances)) / mod - 1)))
            ctx.observe("Z-vs-Y:dev", dev)
            ctx.check(dev <= 1e-3, "representations-agree", c, f"reconstructions in the impedance and admittance representation differ by {dev * 100:.2f} %")
        except ZHITError:
            pass
    # scaling
    try:
        r2 = run(f, Z * c["k"], kw)
        dev = float(np.max(np.abs(np.abs(np.asarray(r2.impedances)) / (c["k"] * mod) - 1)))
        ctx.observe("scaling:dev", dev)
        ctx.check(dev <= 2e-4, "impedance-scaling", c, f"Z -> {c['k']:.3g} Z: reconstruction/k deviates by {dev:.3e}")
    except ZHITError:
        pass
    # points without weight never influence the result (phase kept, modulus changed)
    dead = ~live
    if dead.any():
        rng = np.random.Generator(np.random.PCG64(c["custom_seed"] + 1))
        Z3 = Z.copy()
        # powers of two: the phase stays bit-identical (an ulp of phase noise on constant-phase data is amplified to 1e-5 by
        # the robust iterations of LOWESS, which has nothing to do with the modulus of these points)
        Z3[dead] = Z3[dead] * 2.0 ** rng.choice([-3, -2, -1, 1, 2, 3], int(dead.sum()))
        r3 = run(f, Z3, kw)
        dev = float(np.max(np.abs(np.abs(np.asarray(r3.impedances)) / mod - 1)))
        ctx.check(dev <= 1e-7, "offset-uses-weighted-points-only", c, f"changing |Z| at {int(dead.sum())} points outside the window / with zero weight changes the reconstruction by {dev:.3e}")
    # a second spectrum in the same process: same end points and length, different interior points
    f2 = grid_of(c, c["warp"])
    if not np.array_equal(f2, f):
        Zb = spectrum(c, f2)
        kw2, live2 = _weights_for(c, f2)
        if live2.sum() >= 3 and (~live2).any():
            try:
                ra = run(f2, Zb, kw2)
                rng = np.random.Generator(np.random.PCG64(c["custom_seed"] + 2))
                Zc = Zb.copy()
                Zc[~live2] = Zc[~live2] * 2.0 ** rng.choice([-3, -2, -1, 1, 2, 3], int((~live2).sum()))
                rb = run(f2, Zc, kw2)
                dev = float(np.max(np.abs(np.abs(np.asarray(rb.impedances)) / np.abs(np.asarray(ra.impedances)) - 1)))
                ctx.check(dev <= 1e-7, "offset-uses-weighted-points-only", c, f"second grid (same end points and length): changing |Z| outside the window changes the reconstruction by {dev:.3e}")
                if c["kind"] != "ladder":
                    e2 = float(np.max(np.abs(np.abs(np.asarray(rb.impedances)) / np.abs(Zb) - 1)))
                    ctx.check(e2 <= 5e-4, "constant-phase-exact", c, f"second grid with |Z| perturbed outside the window: modulus off by {e2:.3e}")
                labels.add("second-grid")
            except (ZHITError, ValueError):
                pass
    ctx.record(c, True, sorted(labels))


# ---------------------------------------------------------------------------- smoothing filters (exhaustive)
def smoothing_cases(ctx):
    for sm in ("savgol", "lowess", "whithend", "modsinc"):
        for npts in range(2, 10):
            for order in range(1, 10):
                for n, kind in ((31, "constant"), (31, "linear"), (76, "linear")):
                    yield {"smoothing": sm, "num_points": npts, "polynomial_order": order, "n": n, "phase": kind}


def body_smoothing(ctx, c):
    from pyimpspec.analysis.zhit.smoothing import _smooth_phase

    lnw = np.log(2 * math.pi * np.logspace(5, 0, c["n"]))
    ph = np.full(c["n"], -0.7) if c["phase"] == "constant" else -0.1 * lnw + 0.3
    labels = {"smoothing:" + c["smoothing"], "phase:" + c["phase"]}
    try:
        out = _smooth_phase(c["smoothing"], c["num_points"], c["polynomial_order"], 3, lnw, ph.copy())
    except Exception as e:  # noqa: BLE001  a (num_points, order) pair the filter does not accept
        ctx.record(c, False, labels, "refused: " + type(e).__name__)
        return
    dev = float(np.max(np.abs(np.asarray(out) - ph)))
    ctx.check(dev <= 1e-9, f"smoothing-preserves-{c['phase']}-phase", c, f"{c['smoothing']}(num_points={c['num_points']}, polynomial_order={c['polynomial_order']}) changes {c['phase']} phase data by {dev:.3e} rad")
    ctx.record(c, True, sorted(labels))


def window_cases(ctx):
    import pyimpspec.analysis.zhit.weights as W

    if len(W._WINDOW_FUNCTIONS) == 0:
        W._initialize_window_functions()
    for name in sorted(W._WINDOW_FUNCTIONS):
        for center, width in ((1.5, 3.0), (2.0, 1.0), (0.25, 2.5), (3.7, 0.8)):
            yield {"window": name, "center": center, "width": width}


def body_window(ctx, c):
    from pyimpspec.analysis.zhit.weights import _generate_weights

    logf = np.linspace(6, -2, 97)
    w = np.asarray(_generate_weights(logf, c["window"], c["center"], c["width"]))
    lo, hi = c["center"] - c["width"] / 2, c["center"] + c["width"] / 2
    outside = (logf < lo - 1e-12) | (logf > hi + 1e-12)
    ctx.check(w.shape == logf.shape and bool(np.all((w >= 0) & (w <= 1))), "weights-in-unit-interval", c, f"{c['window']}: weights in [{w.min()}, {w.max()}]")
    ctx.check(bool(np.all(w[outside] == 0)), "weights-zero-outside-window", c, f"{c['window']}: non-zero weight outside [{lo}, {hi}]")
    ctx.check(bool(np.isfinite(w).all()), "weights-in-unit-interval", c, "NaN weight")
    ctx.record(c, True, ["window:" + c["window"]])


def parts(ctx):
    return [
        Part("smoothing-filters", body_smoothing, items=smoothing_cases, exhaustive=True, budget_s={"quick": 60, "thorough": 300}),
        Part("windows", body_window, items=window_cases, exhaustive=True, budget_s={"quick": 60, "thorough": 300}),
        Part("reconstruction", body, strategy=zhit_case(), n={"quick": 240, "thorough": 8000}, budget_s={"quick": 200, "thorough": 2400}, case_timeout_s=120),
    ]
