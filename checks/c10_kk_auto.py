"""C10 — automatic Kramers-Kronig testing tracks the noise and flags drift (DESIGN.md section 4, C10).

A statement about distributions, decided against bands calibrated on the unchanged tree (1516 runs: estimated /
injected noise in 0.76..2.0 with one outlier at 7.9; drift chi-squared ratio >= 4.3) and then frozen: the noise clause
is a *rate* (at most max(2, 1.5 %) of the runs outside [0.3, 5]), the drift clause a per-pair threshold (>= 2).
"""
from __future__ import annotations

import math

import numpy as np
from hypothesis import strategies as st

from vlib import gen_spectra as S
from vlib.runner import Part

PROPERTY = "C10"
RULE = (
    "The 19 bundled valid mock circuits (and their 16 drift-corrupted counterparts) and Hypothesis-generated RC/RQ ladders x "
    "Gaussian noise of relative standard deviation sigma log-uniform in 0.02..1 % x drawn integer RNG seeds, through "
    "perform_exploratory_kramers_kronig_tests with default settings. Oracle: estimated noise / sigma in [0.3, 5] in all but "
    "max(2, 1.5 %) of the runs (a rate: 1 run of 1516 is outside on the unchanged tree, 0.76..2.0 otherwise); suggested num_RC within the limits returned by the same call and equal to the "
    "num_RC of the returned result; for circuits with a drift-corrupted counterpart and sigma <= 0.03 %: chi-squared(invalid) / "
    "chi-squared(valid) >= 2 (observed >= 4.3 over 440 pairs, the minimum at the circuit with the weakest bundled drift, CIRCUIT_16; >= 40 for the others). Every run is noisy, so every run is non-trivial; distinct over (circuit, "
    "sigma, seed)."
)
ASSUMPTIONS = [
    "bands calibrated once on the unchanged tree and frozen (safety factors x2.5 on either side of the observed 0.76..2.0; x2 on the weakest drift ratio): the check detects gross mis-calibration, not small biases",
    "the drift clause is only claimed where the bundled drift is above the noise floor (sigma <= 0.03 %: the ratio falls with 1/sigma^2 and CIRCUIT_16's drift reaches only 2.4..6.8 at 0.05 %)",
]
SHARDS = {"quick": 8, "thorough": 16}
FLOOR = 0.5
REQUIRED_CLASSES = {t: ["mock", "ladder", "drift-twin"] for t in ("quick", "thorough")}


@st.composite
def case_strategy(draw):
    kind = draw(st.sampled_from(["mock", "mock", "mock", "ladder"]))
    sigma = 10.0 ** draw(st.floats(math.log10(0.02), 0.0))
    if draw(st.integers(0, 3)) == 0:
        sigma = draw(st.floats(0.5, 1.0))  # the noisy end, where over-parametrised fits start to look smooth
    seed = draw(st.integers(0, 2**31 - 1))
    if kind == "mock":
        i = draw(st.integers(1, 19))
        if i <= 16 and draw(st.booleans()):
            sigma = 10.0 ** draw(st.floats(math.log10(0.02), math.log10(0.03)))
        return {"kind": "mock", "id": i, "sigma": sigma, "seed": seed}
    n_el = draw(st.integers(1, 3))
    taus = sorted(10.0 ** draw(st.floats(-4.5, 0.5)) for _ in range(n_el))
    return {"kind": "ladder", "R0": draw(st.floats(5, 100)), "els": [[draw(st.floats(20, 500)), t, draw(st.sampled_from([1.0, 0.9, 0.8]))] for t in taus], "sigma": sigma, "seed": seed}


def body(ctx, case):
    from pyimpspec import DataSet, generate_mock_data, perform_exploratory_kramers_kronig_tests

    labels = {case["kind"]}
    if case["kind"] == "mock":
        data = generate_mock_data(f"CIRCUIT_{case['id']}", noise=case["sigma"], seed=case["seed"])[0]
    else:
        f = np.logspace(5, -2, 71)
        data = DataSet(f, S.add_noise(S.ladder(f, case["R0"], [tuple(e) for e in case["els"]]), case["sigma"], case["seed"]))
    tests, (res, scores, lo, hi) = perform_exploratory_kramers_kronig_tests(data, num_procs=1)
    est = float(res.get_estimated_percent_noise())
    ratio = est / case["sigma"]
    ctx.observe("estimated/injected:" + case["kind"], ratio)
    # a statement over the noise distribution: one run outside the band is an outlier of the heuristics (1 in 1516 on the
    # unchanged tree: CIRCUIT_10, sigma 0.028 %, seed 5630 -> 7.9), the *rate* of such runs is what the check judges (post)
    labels.add("noise-in-band" if 0.3 <= ratio <= 5.0 else "noise-outside-band")
    if not 0.3 <= ratio <= 5.0:
        ctx.observe("outside-band-ratio", ratio)
    ctx.check(lo <= res.num_RC <= hi and any(t is res or (t.num_RC == res.num_RC and t.pseudo_chisqr == res.pseudo_chisqr) for t in tests), "num_RC-within-reported-limits", case,
              f"suggested num_RC {res.num_RC} with reported limits [{lo}, {hi}]; tested {[t.num_RC for t in tests][:3]}..{tests[-1].num_RC}")
    if case["kind"] == "mock" and case["id"] <= 16 and case["sigma"] <= 0.03:
        bad = generate_mock_data(f"CIRCUIT_{case['id']}_INVALID", noise=case["sigma"], seed=case["seed"])[0]
        _, (res2, _, _, _) = perform_exploratory_kramers_kronig_tests(bad, num_procs=1)
        r = res2.pseudo_chisqr / res.pseudo_chisqr
        ctx.observe("drift-chisqr-ratio", r)
        ctx.check(r >= 2.0, "drift-flagged", case, f"CIRCUIT_{case['id']}: chi-squared of the drift-corrupted spectrum is only {r:.2f} x that of the valid one")
        ctx.check(not np.array_equal(bad.get_impedances(), data.get_impedances()), "drift-flagged", case, "the drift-corrupted mock spectrum is identical to the valid one")
        labels.add("drift-twin")
    ctx.record(case, True, sorted(labels))


def all_twins(ctx):
    """Every bundled circuit that has a drift-corrupted counterpart, at the lowest noise level (complete over the 16 ids)."""
    for i in range(1, 17):
        yield {"kind": "mock", "id": i, "sigma": 0.02, "seed": 1000 + i + ctx.seed}


def parts(ctx):
    return [
        Part("drift-twins", body, items=all_twins, exhaustive=True, budget_s={"quick": 200, "thorough": 600}, case_timeout_s=180),
        Part("noise", body, strategy=case_strategy(), n={"quick": 160, "thorough": 1500}, budget_s={"quick": 200, "thorough": 3000}, case_timeout_s=180),
    ]


def post(merged, tier):
    """Frozen rate: at most max(2, 1.5 %) of the runs may estimate the noise outside [0.3, 5] x the injected level."""
    cl = merged["classes"]
    out, inside = cl.get("noise-outside-band", 0), cl.get("noise-in-band", 0)
    n = out + inside
    allowed = max(2, int(0.015 * n))
    if n >= 30 and out > allowed:
        return [{"part": "noise", "clause": "noise-tracked", "case": {"runs": n, "outside_band": out, "allowed": allowed},
                 "detail": f"{out} of {n} runs estimate the noise outside [0.3, 5] x the injected level (allowed: {allowed}; 1 of 1516 on the unchanged tree)"}]
    return []
