#!/venv/bin/python
"""Regenerates MANIFEST.json from the table below (keeps it schema-valid at all times).

Properties whose check module does not exist yet are listed under not_applicable with the
reason "check not built yet" so that the manifest never claims what is not there.
"""
import json
import os
import subprocess
import sys

VERIF = os.path.dirname(os.path.dirname(os.path.abspath(__file__)))
sys.path.insert(0, VERIF)
from vlib.runner import CHECKS  # noqa: E402

BASELINE_OFF = (
    "cd /repo && env -u PYIMPSPEC_VERIF /venv/bin/python -m pytest -ra -q -p no:cacheprovider --timeout=900 "
    "--continue-on-collection-errors"
)

# id -> (technique, level text, level note)
TABLE = {
    "C01": (
        "property-based differential testing against a reference evaluator (Hypothesis) + exhaustive shape enumeration",
        "Generated circuits (every series/parallel shape up to a leaf bound exhaustively, random larger ones, all registered element types incl. containers, parameters inside limits, open/short branches, a partially shorted user element) are evaluated by the library through objects, CircuitBuilder and parse_cdc, array-wise and point-wise, and compared with an independent composition-law evaluator; exploration of a very large space, no absence claim.",
        "Trusts each leaf element's own get_impedances (decided by C02), Python complex arithmetic for the reference composition, and the stated tolerances (rel 1e-12*kappa / 1e-10*kappa for the 12-decimal builder path).",
    ),
    "C02": (
        "property-based differential testing against an independent mpmath evaluation of the documented equation",
        "Every registered element class x generated in-limit parameter vectors x frequencies, whole circuits and all 36 Tlm sub-circuit configurations: numeric impedance vs our own 40-digit mpmath evaluation of the class's documented equation string and of to_sympy(); reported 0 Hz / inf limits vs mpmath evaluation at f=1e-/+20000 (only where the reference itself has converged).",
        "Trusts sympy's parser for the equation strings and mpmath's elementary functions; tolerance rel 1e-9 plus a backward-error allowance (64 ulp of every input). For Tlm sub-circuit configurations the numeric and the symbolic path are compared with each other only. Known finding F40a/b: the Tlmb*/Tlmn* elements lose digits (1e-4) when their characteristic frequency leaves 1e+-230.",
    ),
    "C03": (
        "round-trip and generator-as-oracle property-based testing with a grammar-directed CDC printer",
        "Generated circuits with full element state are serialised/parsed/re-serialised (byte identity on canonical forms, fixed point otherwise, deep copy), and every alternative spelling emitted by our grammar-directed printer must parse to the tree the printer intended.",
        "Trusts our printer's reading of the CDC grammar (derived from parser.py/tokenizer.py and the docs) and the equivalence relation stated in the property.",
    ),
    "C04": (
        "exhaustive lexical-atom enumeration + grammar-based mutation fuzzing + coverage-guided fuzzing (atheris) with an exception-taxonomy oracle",
        "Every sequence of <=N lexical atoms (exhaustive, sharded), every prefix/single deletion and sampled substitutions/insertions of generated valid codes, deep nesting, and (thorough) an atheris campaign: parse_cdc must return a Circuit or raise ParsingError/TokenizingError/ValueError; accepted strings must be simulable or refused by an ImpedanceError and re-parse from their extended serialisation.",
        "Termination is judged by a per-string watchdog (inconclusive, never a violation); the atom alphabet is ours.",
    ),
    "C05": (
        "stateful model-based property testing (Hypothesis-generated operation histories vs a list-of-triples model) + exhaustive mask-subset enumeration",
        "Generated histories over construct/set_mask/low_pass/high_pass/subtract/to_dict-json-from_dict/duplicate/deepcopy/average are applied to the real DataSet and to a reference model; every getter is compared after every step, exactly. All mask subsets for n<=5 (quick) / 8 (thorough) in both orders are enumerated exhaustively.",
        "Input frequencies strictly monotone as the property states; derived magnitudes/phases compared at rel 1e-14; average at rel 1e-12.",
    ),
    "C06": (
        "round-trip property-based testing over generated file conventions (pairwise-complete cross product) and instrument-layout writers",
        "Generated spectra are written by our own emitters in every documented delimited-table convention and in the six simple instrument layouts, parsed with parse_data and compared with the generating numbers (documented sign of Im, one DataSet per sweep); the CLI 'parse' csv output is fed back as such a file.",
        "Instrument-layout writers are modelled on the repository's sample files; binary/spreadsheet formats are out of the property's text; layouts read through pandas compared at rel 1e-12, through float() at 1e-15; extension-less files only for comma tables.",
    ),
    "C07": (
        "property-based testing against an analytic reference model (own implementation of the KK model and time constants)",
        "Spectra generated by our own implementation of the test's equivalent-circuit model are fed to every test kind x representation x C/L option; residuals must vanish and generating parameters be recovered within condition-scaled tolerances.",
        "Trusts our replica of the time-constant formula and design matrix (condition number); cnls only on a calibrated narrowed domain.",
    ),
    "C08": (
        "property-based identity checks between result fields + metamorphic masked-garbage twins",
        "For every analysis entry point and generated data sets with masked points carrying garbage: frequencies = unmasked input, residual and chi-squared identities, impedances = circuit impedance, bit-identical results for twins that differ only on masked points, inputs unmodified.",
        "Small option sets per entry point; identities at rel 1e-12/1e-9. An analysis that raises returns no result: counted and labelled here, judged by C18.",
    ),
    "C09": (
        "metamorphic property-based testing (impedance scaling, frequency scaling, order reversal)",
        "Generated noisy spectra x test kinds x representations x options are run on the original and on rescaled/reversed data; residuals and chi-squared must agree and fitted quantities rescale.",
        "Fixed num_RC, no extension optimisation; tolerances (abs 1e-5 + rel 1e-4 of max |residual|) from calibration on the repaired tree. The unit dependence of the cnls implementation is known finding F38 (its cases are excluded from the scaling clauses, not from the chi-squared identity).",
    ),
    "C10": (
        "property-based statistical testing against frozen calibrated bands",
        "Bundled mock circuits and random ladders x noise levels x drawn RNG seeds through the default automatic test: estimated noise within a frozen band of the injected noise (judged as a rate over the run), suggested num_RC inside reported limits, drift-corrupted twin has a much larger chi-squared.",
        "Bands calibrated once on the unchanged tree (1516 runs) with a wide safety factor and frozen: the noise clause is a rate (at most max(2, 1.5 %) of the runs outside [0.3, 5] x the injected level; 1 of 1516 observed), the drift clause a per-pair chi-squared ratio >= 2 at sigma <= 0.03 % (minimum observed 4.3); detects gross mis-calibration only.",
    ),
    "C11": (
        "property-based testing with analytic oracles (constant-phase spectra) and metamorphic relations (scaling, zero-weight points)",
        "Constant-phase spectra and ladders x smoothing x interpolation x representation x windows: reconstructed modulus vs true modulus, scaling equivariance, zero-weight insensitivity, smoothers preserve constant and linear phase.",
        "Tolerances calibrated on the repaired tree (constant phase 5e-4; ladders 8 %/20 %); three smoother/option combinations that alter linear phase are listed as known findings F17, F18, F33.",
    ),
    "C12": (
        "property-based testing: recovery against generating truth + invariants over the method x weight grid",
        "Generated identifiable circuits, perturbed starts, fixed subsets, limit boxes, constraints: bounds/fixed/constraints/table/untouched-input invariants on every fit; recovery of the truth with the default auto choice.",
        "Recovery asserted per case on single-arc families and by a frozen rate (>= 0.85) on two-arc families; FittingError is an accepted outcome for exotic method/weight pairs.",
    ),
    "C13": (
        "property-based testing with analytic oracles (area, peak positions, exact Loewner recovery) and metamorphic scaling",
        "Generated RC/RQ ladders x methods: non-negativity, area = polarisation resistance, peaks at tau_k, exact (tau_k,R_k) recovery by the Loewner method, per-element m(RQ)fit areas, scaling laws.",
        "Bands calibrated on the unchanged tree (area [0.90, 1.03]; peaks for (RC) elements); the m(RQ)fit oracle is point-wise against our own Cole-Cole/Gaussian curves.",
    ),
    "C14": (
        "stateful model-based property testing (generated call histories vs a dictionary model) on every element class",
        "Generated histories of setter/reset/copy/parse calls with valid and invalid arguments on every registered class; all getters compared with the model after every step; copies equal and independent; class defaults never change.",
        "The model encodes the documented setter semantics as read from base.py docstrings.",
    ),
    "C15": (
        "stateful model-based property testing of the global registry in fresh interpreters",
        "Generated histories over register/remove/reset/set_default_values/reset_default_parameter_values/parse_cdc/get_elements against a registry model; after reset a behavioural fingerprint must equal the one taken at import.",
        "Each shard is a fresh interpreter; user classes are generated from templates.",
    ),
    "C16": (
        "property-based testing of bijection/consistency invariants over generated circuits",
        "Generated circuits with repeated types, labels and nested containers: identifier bijections, unique names, symbol-to-element consistency of to_sympy, fit identifiers, fitted-parameter tables and diagrams.",
        "Distinct parameter values make mix-ups observable.",
    ),
    "C17": (
        "schedule-controlled property-based testing (FakePool with Hypothesis-drawn completion orders) + real multiprocessing repeats",
        "Fan-out entry points are run with a harness-owned pool that delivers results in generated permutations, and with real pools of 1..16 workers with injected delays (the requested pool size is drawn under the harness-owned pool too); every result field must be bit-identical to the serial reference. Mock data bit-identical per seed.",
        "Completion order is the only schedule-dependent input of these code paths (pure worker functions, results gathered in the parent); real OS schedules are sampled.",
    ),
    "C18": (
        "exhaustive/pairwise option-grid enumeration with an exception-taxonomy oracle and a progress-callback monitor",
        "The option cross products of every analysis entry point on several spectrum sizes: each combination must return a result or be refused by an explicit raise of TypeError/ValueError/library error; progress notifications in [0,1] with a str message.",
        "Refusal = innermost frame is a raise statement in pyimpspec outside progress.py; a TypeError after progress was reported is a violation; known findings F34 (automatic KK on 4-5 points) and F35 (log_F_ext outside the search range).",
    ),
    "C19": (
        "differential property-based testing: CLI output parsed back vs API results",
        "Generated files/mock specifiers/circuit codes x formats x filters through the in-process CLI; printed tables parsed back and compared with the API results at format precision.",
        "In-process command() with print_func capture; a few real subprocess runs in the thorough tier.",
    ),
    "C20": (
        "property-based totality + structural validity checks over enumerated and random circuits",
        "All shapes up to a leaf bound x random element assignment: exports must not raise; free-symbol sets, CircuiTikZ structure/labels/component counts, drawing components, stack balance.",
        "Labels drawn from identifier-like and rich classes.",
    ),
}


def main():
    checks = []
    not_applicable = []
    for pid, modname in CHECKS.items():
        path = os.path.join(VERIF, modname.replace(".", "/") + ".py")
        tech, text, note = TABLE[pid]
        if not os.path.exists(path):
            not_applicable.append({"property_id": pid, "reason": "check not built yet (planned, see DESIGN.md section 4); nothing is claimed for it at this commit"})
            continue
        checks.append(
            {
                "property_id": pid,
                "quick_cmd": f"./check {pid} --tier quick",
                "thorough_cmd": f"./check {pid} --tier thorough",
                "evidence_file": f"/verif/evidence/{pid}.json",
                "replay_cmd_template": f"./check {pid} --replay {{path}}",
                "engine": "hypothesis-runner",
                "level_claimed": {"category": "exploration", "text": text, "design_ref": f"DESIGN.md section 4, {pid}"},
                "level_note": note,
                "technique": tech,
            }
        )
    hooks_commits = []
    manifest = {
        "version": 1,
        "setup_cmd": "./setup.sh",
        "hooks": {
            "guard": "PYIMPSPEC_VERIF",
            "enable": "no source hooks are needed: checks import /repo/src directly (PYTHONPATH) and observe through public API; ./check exports PYIMPSPEC_VERIF=1 for completeness",
            "baseline_off_cmd": BASELINE_OFF,
            "source_commits": hooks_commits,
            "add_only": True,
        },
        "engines": [
            {
                "name": "hypothesis-runner",
                "path": "vlib/runner.py",
                "serves_properties": [c["property_id"] for c in checks],
                "kind_free_text": "Hypothesis 6.168 strategies producing JSON cases, sharded over processes, collect-bucket-shrink-replay, evidence writer; exhaustive enumerations through the same oracle bodies",
            }
        ],
        "checks": checks,
        "notes": "Every check: ./check <id> --tier quick|thorough; exit 0/1/2 = held / VIOLATION / harness error. known_findings.json lists genuine defects (known + fixed). See DESIGN.md.",
        "not_applicable": not_applicable,
    }
    with open(os.path.join(VERIF, "MANIFEST.json"), "w") as fh:
        json.dump(manifest, fh, indent=1)
        fh.write("\n")
    # validate
    try:
        import jsonschema  # noqa: F401
    except ImportError:
        r = subprocess.run(
            ["python3-vt", "-c", "import json,jsonschema,sys; jsonschema.validate(json.load(open(sys.argv[1])), json.load(open('/root/.vp/MANIFEST.schema.json'))); print('MANIFEST valid')", os.path.join(VERIF, "MANIFEST.json")]
        )
        sys.exit(r.returncode)


if __name__ == "__main__":
    main()
