#!/bin/bash
# usage: tools/check_fixed.sh   — for every "fixed" entry of known_findings.json: revert that commit in a scratch worktree of /repo
# and confirm that the committed regression case then FAILS (and passes on the current tree). Prints one line per entry.
cd "$(dirname "$0")/.." || exit 2
WT=$(mktemp -d /tmp/verif-revert.XXXXXX); rmdir "$WT"
git -C /repo worktree add -q --detach "$WT" HEAD || exit 2
trap 'git -C /repo worktree remove --force "$WT"' EXIT
/venv/bin/python - <<'PY' > /tmp/verif-fixed-list.txt
import json
for e in json.load(open('known_findings.json'))['fixed']:
    print(e['property'], e['commit'], e['replay'])
PY
while read -r prop commit replay; do
  git -C "$WT" reset -q --hard HEAD
  now=$(./check "$prop" --replay "$replay" 2>&1 | tail -1 | cut -c1-40)
  if git -C "$WT" revert -n "$commit" >/dev/null 2>&1; then
    rev=$(VERIF_REPO="$WT" ./check "$prop" --replay "$replay" 2>&1 | tail -1 | cut -c1-40)
  else
    rev="(revert conflicts with later commits)"
  fi
  git -C "$WT" revert --abort >/dev/null 2>&1
  echo "$prop $commit $replay | current: $now | reverted: $rev"
done < /tmp/verif-fixed-list.txt
rm -f /tmp/verif-fixed-list.txt
