#!/bin/bash
# usage: tools/confirm_seed.sh <PROP> <worktree> <mutant-dir-name> <seed-name>
# Confirms a sub-agent's seeded change in the scratch worktree (demo passes clean, fails patched; stable suite passes patched)
# and, if all holds, copies it to /verif/seeded/<seed-name>/ with a meta.json stub.
PROP=$1; WT=$2; M=$3; NAME=$4
D="$WT/_mutants/$M"
cd "$WT" || exit 2
git checkout -q -- src
run_demo() { PYTHONPATH="$WT/src" MPLBACKEND=Agg timeout 600 /venv/bin/python "$D/demo.py" >/dev/null 2>&1; echo $?; }
clean=$(run_demo)
git apply "$D/patch.diff" || { echo "$NAME: patch does not apply"; exit 1; }
patched=$(run_demo)
tests=$(/tmp/mut/runtests.sh "$WT" | head -1)
git checkout -q -- src
echo "$NAME: demo clean=$clean patched=$patched; $tests"
if [ "$clean" = "0" ] && [ "$patched" != "0" ] && echo "$tests" | grep -q "262/262"; then
  mkdir -p "/verif/seeded/$NAME"
  cp "$D/patch.diff" "$D/demo.py" "/verif/seeded/$NAME/"
  [ -f "$D/notes.md" ] && cp "$D/notes.md" "/verif/seeded/$NAME/notes.md"
  /venv/bin/python - "$PROP" "$NAME" "$clean" "$patched" "$tests" <<'PY'
import json, sys, os
prop, name, clean, patched, tests = sys.argv[1:6]
d = f"/verif/seeded/{name}"
notes = open(os.path.join(d, "notes.md")).read() if os.path.exists(os.path.join(d, "notes.md")) else ""
meta = {
    "property": prop,
    "name": name,
    "origin": "fresh sub-agent given only the property text and a scratch worktree",
    "needs_to_manifest": notes.strip(),
    "confirmed": {
        "demo_exit_clean_tree": int(clean),
        "demo_exit_with_patch": int(patched),
        "stable_suite_with_patch": tests,
        "how": "tools/confirm_seed.sh in a scratch git worktree of /repo (removed afterwards)",
    },
    "detected_by": None,
}
json.dump(meta, open(os.path.join(d, "meta.json"), "w"), indent=1)
PY
  echo "$NAME: kept"
else
  echo "$NAME: NOT kept"
fi
