#!/venv/bin/python
"""usage: tools/record_detected.py <results.jsonl> <how-it-was-run> — writes the outcome of tools/seed_all.sh / tools/seedrun.sh runs
(one JSON object per line: name, property, exit, clauses) into seeded/<name>/meta.json["detected_by"]."""
import json
import os
import subprocess
import sys

VERIF = os.path.dirname(os.path.dirname(os.path.abspath(__file__)))
commit = subprocess.run(["git", "-C", VERIF, "rev-parse", "--short", "HEAD"], capture_output=True, text=True).stdout.strip()
for line in open(sys.argv[1]):
    d = json.loads(line)
    p = os.path.join(VERIF, "seeded", d.get("name", ""), "meta.json")
    if "exit" not in d or not os.path.exists(p):
        continue
    m = json.load(open(p))
    old = m.get("detected_by") or {}
    m["detected_by"] = {"check": d["property"], "tier": "quick", "exit": d["exit"], "clauses": d["clauses"].split(), "ran": f"{sys.argv[2]}, /verif commit {commit}"}
    if old.get("note"):
        m["detected_by"]["note"] = old["note"]
    json.dump(m, open(p, "w"), indent=1)
    print(d["name"], d["exit"])
