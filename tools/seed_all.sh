#!/bin/bash
# usage: tools/seed_all.sh <repo-dir> [names...]   — runs every seeded change against its property's quick check in <repo-dir>
# (a scratch copy/worktree of /repo: never /repo itself when other work is going on). Writes one JSON line per seed to stdout.
REPO="$(readlink -f "$1")"; shift
cd "$(dirname "$0")/.." || exit 2
NAMES="$@"; [ -z "$NAMES" ] && NAMES=$(ls seeded)
for name in $NAMES; do
  prop=${name%%-*}
  git -C "$REPO" checkout -q -- . 
  if ! git -C "$REPO" apply "$PWD/seeded/$name/patch.diff" 2>/dev/null; then echo "{\"name\":\"$name\",\"error\":\"patch does not apply\"}"; continue; fi
  out=$(VERIF_REPO="$REPO" ./check "$prop" --tier quick 2>&1); code=$?
  clauses=$(echo "$out" | grep -E "^violated clause:|^regression case fails:" | sed -E 's/^violated clause: ([^ ]+) .*/\1/; s/^regression case fails: ([^:]+):.*/regression:\1/' | sort -u | tr '\n' ' ')
  echo "{\"name\":\"$name\",\"property\":\"$prop\",\"exit\":$code,\"clauses\":\"$clauses\"}"
  git -C "$REPO" checkout -q -- .
  rm -f replays/*/new-*.json
done
