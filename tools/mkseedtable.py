#!/venv/bin/python
"""Regenerates section 10 of DESIGN.md (seeded changes and the clauses that catch them) from seeded/*/meta.json."""
import json
import os
import re

VERIF = os.path.dirname(os.path.dirname(os.path.abspath(__file__)))


def short(text, n=230):
    t = re.sub(r"[`*#]", "", " ".join(text.split()))
    t = re.sub(r"^(m\d\s*[:—–-]+\s*)", "", t)
    return t[:n] + ("..." if len(t) > n else "")


rows = []
for name in sorted(os.listdir(os.path.join(VERIF, "seeded"))):
    p = os.path.join(VERIF, "seeded", name, "meta.json")
    if not os.path.exists(p):
        continue
    m = json.load(open(p))
    d = m.get("detected_by") or {}
    clauses = d.get("clauses") or []
    clauses = [c for c in clauses if not c.startswith("regression:")][:3] + [c for c in clauses if c.startswith("regression:")][:1]
    status = "caught" if d.get("exit") == 1 else ("NOT caught" if d else "not run")
    note = d.get("note", "")
    rows.append(f"| {name} | {short(m.get('needs_to_manifest', ''))} | {status}: {', '.join('`' + c + '`' for c in clauses)}{(' - ' + note) if note else ''} |")

table = "\n".join(["| seeded change | what it is / what it needs to manifest | quick tier of its property's check |", "|---|---|---|"] + rows)
text = f"""## 10. Seeded changes and the clauses that catch them

Each change below was written by a fresh sub-agent that was given only the text of one property and its own scratch git
worktree of `/repo` - nothing from `/verif` - and asked for a change that breaks the property, still imports, still passes
the 262 pinned tests, and needs something specific to manifest. Each was kept only after `tools/confirm_seed.sh` had
confirmed, in a scratch worktree, that its demonstration passes on the unchanged tree and fails with the change, and that
the pinned suite passes with the change. `seeded/<name>/` holds `patch.diff`, `demo.py`, `notes.md` and `meta.json` (what
it needs to manifest, what was run, which clauses report it). A change is run against the checks with
`tools/seedrun.sh seeded/<name>/patch.diff <ID>` (applies it to `/repo`, runs the quick tier, always reverts) or, for all
of them, `tools/seed_all.sh <scratch copy of /repo>`. {len(rows)} changes, three rounds (m1/m2: first round, all twenty
properties; m3/m4: second round, all twenty, with the first round's mechanisms excluded; m5/m6: third round for C01 C03 C05
C06 C12 C13 C14 C16 C19 C20, with all earlier mechanisms excluded). The last column comes from one pass of
`tools/seed_all.sh` over all of them with the checks as committed.

Changes that the checks *missed* when they were first run, and what was strengthened (all are caught now):
C01-m1 (open branch through Zarc/Ga/Ha/K with R = inf - generator only used `Resistor(R=inf)`), C01-m2 (builder cache -
added building histories), C01-m4 (empty nested connection in a parallel - added empty connections to the palette),
C02-m1 (coth short-cut at n -> 1 - added the limit-box corner mode), C03-m4 (nested braces in labels - added to the label
generator), C08-m3 (stale chi-squared for scalar minimisers - added nelder/powell/lbfgsb/bfgs), C12-m2 (limit 0.0 dropped -
five times more invariant fits), C12-m3 (constraint invisible to the optimiser - new clause: the start value of a tied
parameter must not matter), C12-m4 and C16-m1 (suffix match without the underscore - circuits with >= 11 elements),
C15-m2 (complex allclose - minor-component inconsistency class), C16-m3 (blank-padded digit label - explicit clause),
C17-m1 (cnls early stop under unordered delivery - dedicated case on the bundled circuit 4), C18-m1 (progress accounting
with a list of weights - covering-array top-up of the quick stride and a path bug in our own taxonomy), C20-m4 (stale
identifier cache - exports repeated after an in-place edit); second and third round: C07-m4 (time constants in
reversed order when a contracted tau range meets a narrow grid - grids from one decade, half decades), C02-m3 (value cached
at the first symbolic export survives a clamping limit - clamping history), C02-m4 (pore length lost in a Tlm helper - L was
1 in most cases because single-example draws return Hypothesis' simplest example; fourth example taken, L drawn away from
1), C09-m4 (cnls chi-squared weighted in the wrong representation, hidden behind known finding F38 - chi-squared identity
checked outside the F38 routing, cnls added to C08), C17-m3 (stage size from num_procs - pool size drawn under FakePool),
C17-m4 (`seed=0` treated as no seed - boundary seeds), C10-m3 (upper num_RC limit uncapped, 5 % of runs - 160 quick runs,
noisy end over-sampled, rate oracle), C08-m3 again (max_nfev 20/200 aborted every scalar minimiser before convergence -
converged and unlimited fits, tnc/cg/slsqp), C05-m6 (`to_dict` hands out the live mask - held exports must stay
snapshots), C06-m5/m6 (several sweeps in a `.dta` file / `parse --output-to` overwriting sweeps - several sweeps in every
instrument layout and through the CLI, to files and to stdout), C12-m5 (released default-fixed Warburg exponent not copied
- drawn), C12-m6 (constraint dictionary consumed by the first in-process fit - constraints that contradict the generating
values, several methods in the calling process), C13-m6 (forward instead of central quadrature weights - unevenly spaced
grids), C19-m5 (`--lambda-value` below -1.5 rewritten - all lambda modes), C01-m5 (default sub-circuit shared between
instances - container isolation part). Two sub-agents also reported defects of the *unchanged* tree
that the checks had not reached (`!V=1e999!` - defect 25; Z-HIT chi-squared on shifted admittances - defect 16); both
generators were extended until the checks reproduced them, and both were repaired.

{table}
"""
path = os.path.join(VERIF, "DESIGN.md")
s = open(path).read()
if "## 10. Seeded changes" in s:
    a = s.index("## 10. Seeded changes")
    b = s.index("## 11. False alarms")
    s = s[:a] + text + "\n" + s[b:]
else:
    b = s.index("## 11. False alarms")
    s = s[:b] + text + "\n" + s[b:]
open(path, "w").write(s)
print(len(rows), "rows")
