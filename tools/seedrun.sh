#!/bin/bash
# usage: tools/seedrun.sh <patch.diff> <ID> [<ID>...]   — applies a seeded change to /repo, runs the quick checks, always reverts.
# Prints "<ID> exit=<code>" per check. Never commits anything in /repo.
PATCH="$(readlink -f "$1")"; shift
cd /repo || exit 2
if [ -n "$(git status --porcelain -- src)" ]; then echo "refusing: /repo/src is not clean"; exit 2; fi
trap 'git -C /repo checkout -- . ; rm -f /verif/replays/*/new-*.json' EXIT
git apply "$PATCH" || exit 2
for id in "$@"; do
  out=$(cd /verif && ./check "$id" --tier "${TIER:-quick}" 2>&1); code=$?
  echo "$out" | grep -E "violated clause|VIOLATION|HARNESS|regression case fails" | cut -c1-400 | head -8
  echo "$id exit=$code"
done
