#!/bin/bash
# Idempotent, offline. Makes hypothesis importable by /venv/bin/python; atheris (thorough tier of C04 only) goes to /verif/.deps.
cd "$(dirname "$0")" || exit 2
export PIP_NO_INDEX=1
/venv/bin/python -c "import hypothesis" 2>/dev/null || /venv/bin/pip install --no-index --find-links /opt/veriftools/wheels hypothesis || exit 2
if ! PYTHONPATH="$PWD/.deps" /venv/bin/python -c "import atheris" 2>/dev/null; then
  /venv/bin/pip install --no-index --find-links /opt/veriftools/wheels --target "$PWD/.deps" atheris >/dev/null 2>&1 || echo "note: atheris not installed (C04 thorough fuzz campaign will be skipped)"
fi
/venv/bin/python -c "import hypothesis, mpmath, numpy, scipy, sympy; print('setup ok: hypothesis', hypothesis.__version__)"
